"""Build configurations and per-property batch plans of ./check (see DESIGN.md §2.11, §3)."""

CONFIGS = {
    # stable, default features, optimised, debug-assertions + overflow-checks ON (the crate's own
    # debug_assert!s act as extra monitors)
    "dbg": {"features": "std", "profile": "release"},
    # shipped behaviour: assertions off, only external oracles
    "rel": {"features": "std", "profile": "rel"},
    # tracked element of 128 bytes instead of 16: element-size thresholds inside the crate
    "dbg-big": {"features": "std,big_elem", "profile": "release"},
    "eio-both": {"features": "std,eio,eioa", "profile": "release"},
    "eio": {"features": "std,eio", "profile": "release"},
    "eioa": {"features": "std,eioa", "profile": "release"},
    "nostd": {"features": "", "profile": "release"},
    "alloc": {"features": "alloc", "profile": "release"},
    "nightly": {"features": "std", "profile": "release", "toolchain": "nightly"},
    "nightly-unstable": {"features": "std,unstable", "profile": "release", "toolchain": "nightly"},
    "nightly-rel": {"features": "std", "profile": "rel", "toolchain": "nightly"},
    "nightly-unstable-rel": {"features": "std,unstable", "profile": "rel", "toolchain": "nightly"},
}

Q = 400_000     # quick: runs per batch (≈ 2 s at 16 workers)
T = 20_000_000  # thorough: runs per batch and build


def simple(prof, mode="plain", q=Q, t=T, cfgs_t=("dbg", "rel")):
    return {
        "quick": [{"cfg": "dbg", "prof": prof, "mode": mode, "runs": q}],
        "thorough": [{"cfg": c, "prof": prof, "mode": mode, "runs": t} for c in cfgs_t],
    }


PLANS = {
    "C01": simple("C01"),
    "C02": simple("C02"),
    "C03": simple("C03"),
    "C04": simple("C04", mode="garbage", q=200_000, t=8_000_000),
    "C05": simple("C05"),
    "C06": simple("C06"),
    "C07": simple("C07"),
    "C08": simple("C08"),
    "C09": simple("C09"),
    "C10": simple("C10"),
    "C11": simple("C11"),
    "C12": simple("C12"),
    "C13": simple("C13"),
    "C20": simple("C20"),
    # byte-stream I/O through std::io (faulty stream peers for the provided methods)
    "C14": simple("C14"),
    # the same scripts through std::io, embedded_io and embedded_io_async; traces must agree
    "C16": {
        "quick": [{"cfg": "eio-both", "prof": "C16", "mode": "transports", "runs": Q}],
        "thorough": [{"cfg": c, "prof": "C16", "mode": "transports", "runs": T // 2} for c in ("eio-both", "eio", "eioa")],
    },
    # allocation watch in all three scenarios and three feature sets + the no_std builds of the crate
    "C17": {
        "quick": [
            {"kind": "build_only", "name": "nostd", "features": ""},
            {"kind": "build_only", "name": "alloc", "features": "alloc"},
            {"cfg": "dbg", "prof": "C17", "runs": Q // 2},
            {"cfg": "dbg", "prof": "C17io", "runs": Q // 4},
            {"cfg": "dbg", "prof": "C17zst", "runs": Q // 4},
            {"cfg": "nostd", "prof": "C17", "runs": Q // 4},
            {"cfg": "alloc", "prof": "C17", "runs": Q // 4},
        ],
        "thorough": [
            {"kind": "build_only", "name": "nostd", "features": ""},
            {"kind": "build_only", "name": "alloc", "features": "alloc"},
            {"kind": "build_only", "name": "std", "features": "std"},
        ] + [{"cfg": c, "prof": p, "runs": T // 4} for c in ("dbg", "rel", "nostd", "alloc") for p in ("C17", "C17zst")]
          + [{"cfg": c, "prof": "C17io", "runs": T // 4} for c in ("dbg", "rel")],
    },
    # same seeds on nightly (default features) and nightly + `unstable`; per-run digests must agree
    "C18": {
        "quick": [{"kind": "differential", "cfgs": ["nightly", "nightly-unstable"], "control": "dbg", "profs": ["C18", "C18io", "C18zst", "C05", "C06", "C10"], "runs": 150_000}],
        "thorough": [
            {"kind": "differential", "cfgs": ["nightly", "nightly-unstable"], "control": "dbg", "profs": ["C18", "C18io", "C18zst", "C05", "C06", "C10", "C09", "C12"], "runs": 4_000_000},
            {"kind": "differential", "cfgs": ["nightly-rel", "nightly-unstable-rel"], "profs": ["C18", "C18io", "C18zst"], "runs": 4_000_000},
        ],
    },
    "C19": simple("C19"),
}
PLANS["C10"]["quick"].append({"cfg": "dbg", "prof": "C10zst", "runs": 100_000})
PLANS["C10"]["thorough"] += [{"cfg": c, "prof": "C10zst", "runs": 4_000_000} for c in ("dbg", "rel")]
PLANS["C13"]["quick"].append({"cfg": "dbg", "prof": "C13io", "runs": 100_000})
PLANS["C13"]["thorough"] += [{"cfg": c, "prof": "C13io", "runs": 4_000_000} for c in ("dbg", "rel")]
PLANS["C17"]["quick"].append({"cfg": "dbg", "prof": "C17big", "runs": 60_000})
PLANS["C17"]["thorough"] += [{"cfg": c, "prof": "C17big", "runs": 2_000_000} for c in ("dbg", "alloc")]
# capacity-40 batches: size thresholds inside the crate ("when more than K elements ...")
for _p in ("C01", "C03", "C05", "C06", "C07", "C08", "C09", "C10", "C12", "C13", "C20"):
    PLANS[_p]["quick"].append({"cfg": "dbg", "prof": _p + "big", "runs": 30_000})
    PLANS[_p]["thorough"] += [{"cfg": c, "prof": _p + "big", "runs": 1_500_000} for c in ("dbg", "rel")]
# the same properties for 1-byte elements without hooks (io scenario with generic deque operations)
# and for a drop-counting zero-sized element at extreme capacities (zst scenario)
for _p, _x in (("C01", "io"), ("C01", "zst"), ("C03", "zst"), ("C09", "io"), ("C11", "io"), ("C11", "zst")):
    PLANS[_p]["quick"].append({"cfg": "dbg", "prof": _p + _x, "runs": 100_000})
    PLANS[_p]["thorough"] += [{"cfg": c, "prof": _p + _x, "runs": 4_000_000} for c in ("dbg", "rel")]
for _p, _x in (("C02", "io"), ("C07", "zst"), ("C08", "zst"), ("C10", "io"), ("C06", "io"), ("C06", "zst"), ("C09", "zst"), ("C12", "zst"), ("C13", "zst"), ("C20", "io")):
    PLANS[_p]["quick"].append({"cfg": "dbg", "prof": _p + _x, "runs": 100_000})
    PLANS[_p]["thorough"] += [{"cfg": c, "prof": _p + _x, "runs": 4_000_000} for c in ("dbg", "rel")]
PLANS["C02"]["quick"].append({"cfg": "dbg", "prof": "C02zst", "runs": 100_000})
PLANS["C02"]["thorough"] += [{"cfg": c, "prof": "C02zst", "runs": 4_000_000} for c in ("dbg", "rel")]
# capacity 160 with 128-byte elements (a 20 KiB array): thresholds on the byte size of the storage
for _p in ("C01", "C07", "C20"):
    PLANS[_p]["quick"].append({"cfg": "dbg-big", "prof": _p + "huge", "runs": 4_000})
    PLANS[_p]["thorough"].append({"cfg": "dbg-big", "prof": _p + "huge", "runs": 200_000})
# 128-byte elements
for _p in ("C01", "C02", "C03", "C05", "C06", "C07", "C08", "C09", "C10", "C11", "C12", "C13", "C20"):
    PLANS[_p]["quick"].append({"cfg": "dbg-big", "prof": _p, "runs": 100_000})
    PLANS[_p]["thorough"].append({"cfg": "dbg-big", "prof": _p, "runs": 5_000_000})
PLANS["C04"]["quick"].append({"cfg": "dbg", "prof": "C04io", "mode": "garbage", "runs": 100_000})
PLANS["C04"]["quick"].append({"cfg": "dbg", "prof": "C04f", "runs": 200_000})
PLANS["C04"]["quick"].append({"cfg": "dbg", "prof": "C04d", "runs": 200_000})
PLANS["C04"]["thorough"] += [{"cfg": c, "prof": p, "runs": 8_000_000} for c in ("dbg", "rel") for p in ("C04f", "C04d")]
PLANS["C04"]["thorough"] += [
    {"cfg": "dbg", "prof": "C04io", "mode": "garbage", "runs": 4_000_000},
    {"kind": "miri", "prof": "C04", "procs": 16, "runs_per_proc": 100},
]

LEVELS = {
    "C01": "exploration", "C02": "exploration", "C03": "exploration", "C04": "exploration",
    "C05": "fault_enumeration", "C06": "fault_enumeration", "C07": "exploration", "C08": "exploration",
    "C09": "exploration", "C10": "fault_enumeration", "C11": "exploration", "C12": "exploration",
    "C13": "exploration", "C14": "exploration", "C16": "exploration", "C17": "exploration",
    "C18": "exploration", "C19": "exploration", "C20": "exploration",
}

RULES = {
    "default": (
        "Cases are scripts generated by cbsim as a pure function of (VERIF_SEED, profile, run index): run i gets PRNG stream "
        "mix(seed, profile, i) and stratum i mod S, a stratum fixing (capacity N in {0,1,2,3,4,5,6,8,11}, front position r, initial length s, "
        "focus operation); a layout prelude through the public API, the focus operation with boundary-biased arguments, then a tail of 0-30 "
        "further operations. evaluations = scripts executed. distinct_nontrivial = number of DISTINCT coverage cells hit, summed over "
        "batches, a cell being (N, start, size before the step, operation, argument class, fault kind and whether it fired); a step counts "
        "only if it is non-trivial (the buffer was non-empty, or the operation did something, or it unwound). Sampling, not enumeration: "
        "exhaustive=false."
    ),
}

ASSUMPTIONS = {
    "common": [
        "x86-64 Linux, 64-bit usize; stable rustc 1.95 (and nightly 1.97 where stated)",
        "the reference model (VecDeque of (id, value) per buffer, a few dozen lines in sim/src/deque_ops.rs) is the specification of the documented behaviour",
        "sampling: a clean batch is evidence, not proof; capacities above 11 are not compiled for tracked elements",
        "the simulator's own element type, closures, iterators, stream peers, allocator wrapper and executor are stubs standing for user code; the whole crate runs real code",
    ],
}

COMPONENTS = {
    "real": ["circular_buffer (whole crate, built from /repo's working tree with --cfg circular_buffer_verif)", "core::fmt (Debug machinery)", "core slice/iterator adapters used by the crate",
             "std::io provided methods and io::copy (C14/C16 only)"],
    "stub": ["element type Tracked (Drop/Clone/Eq/Ord/Hash/Debug hooks)", "closures and iterators handed to fill_with/extend/from_iter", "global allocator wrapper (counts, fills fresh memory)",
             "stream peers (faulty Read/Write) and the poll-once executor (C14/C16 only)", "reference model and ledger"],
}
