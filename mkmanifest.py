#!/usr/bin/env python3
"""Writes /verif/MANIFEST.json from plans.py (run after changing the plans)."""
import json
import os
import sys

sys.path.insert(0, os.path.dirname(os.path.abspath(__file__)))
from plans import PLANS, LEVELS  # noqa: E402

TEXT = {
    "C01": ("§3 C01", "Conformance of every mutator's return value and resulting contents to a VecDeque reference model over seeded operation histories, stratified over every (capacity<=11, front position, length) layout with boundary-biased arguments. Sampling of histories: exploration.",
            "seeded history simulation against an executable reference model (fault-free configuration of the simulator)"),
    "C02": ("§3 C02", "Identity oracle on push_*/try_push_*: the Option/Result payload is compared by element id and generation with the model's displaced/refused element at every layout and length incl. N=0 and N=1. Exploration.",
            "seeded history simulation with element-identity oracle"),
    "C03": ("§3 C03", "Per-element ledger (created / in buffer / with caller / destroyed) checked for conservation after every step and after the final drop, over seeded histories with partially consumed drains and owning iterators. Exploration.",
            "seeded history simulation with ownership ledger"),
    "C04": ("§3 C04", "Every script is executed three times: unpoisoned and under two different garbage fillings of all unoccupied slots (00/FF/5A/random/stale-dead copies/bit copies of live elements, rewritten after every step through the guarded hook); element hooks trip on any touched non-live element and the three observable-trace digests must be equal. Thorough adds Miri (uninitialised reads). Exploration.",
            "storage-corruption fault injection + two-run non-interference of trace digests (+ Miri in thorough)"),
    "C05": ("§3 C05", "Panic injected into the k-th destructor call of each destroying operation, k drawn from 1..=predicted+1 per visited (layout, operation, argument); afterwards no element may be destroyed twice, the buffer must be a valid sequence of live distinct elements, and strict model checking resumes with the next step. Crash point within the operation enumerated by sampling k uniformly; surrounding state sampled. fault_enumeration.",
            "deterministic simulation with injected destructor panics (crash-point sweep) and ledger oracle"),
    "C06": ("§3 C06", "Panic injected into the k-th Clone / closure / iterator next / comparison / fmt call of each operation that runs user code; afterwards the buffer must be valid, nothing destroyed twice and nothing leaked (live ids = buffer contents + caller's hand). fault_enumeration.",
            "deterministic simulation with injected user-code panics and conservation oracle"),
    "C07": ("§3 C07", "After every step of every run all shared accessors are compared with the model and with each other by element address, the mutable accessors must return the same addresses pairwise distinct, writes/replacements through each mutable accessor must change exactly the addressed model position; make_contiguous postconditions. Exploration.",
            "seeded history simulation with view-agreement invariant after every step"),
    "C08": ("§3 C08", "Iterator sessions (iter, iter_mut, range, range_mut, into_iter; every RangeBounds form) driven by random words over next/next_back/len/size_hint/clone/Debug against a two-pointer model of the selected sub-sequence, incl. addresses and Default iterators. Exploration.",
            "seeded sub-history simulation of iterator sessions against a two-pointer model"),
    "C09": ("§3 C09", "Drain sessions over every layout and range shape with random next/next_back words and drop point; yielded items, len, contents after drop (prefix ++ suffix) and the ledger of un-yielded elements are checked; back-fill depth 0-3 copy steps measured by probes. Exploration.",
            "seeded sub-history simulation of drain sessions with ledger"),
    "C10": ("§3 C10", "mem::forget of a live Drain after a random prefix of its consumption word (the drain's destructor never runs); afterwards contents must be live, distinct, from the original contents and disjoint from handed-out elements; strict tail and final drop follow; a second batch leaks drains of a drop-counting zero-sized element at huge capacities (count model: the buffer may not claim more elements than still exist). fault_enumeration (fault = destructor not run).",
            "deterministic simulation with injected 'destructor never runs' fault (mem::forget) and ledger oracle"),
    "C11": ("§3 C11", "Every step carries the model's prediction 'panics iff documented' computed in 128-bit arithmetic (all Bound combinations, usize::MAX, N=0); unwinding is an observed event; contents must be unchanged after a documented panic; a watchdog bounds every run. Exploration.",
            "seeded history simulation with panic/termination oracle"),
    "C12": ("§3 C12", "Constructors and conversions as operations inside histories (new/default/boxed/from array M in 0..=17/from_iter/clone/clone_from/to_vec/into_iter+collect) with ledger origins (fresh ids for clones, same ids for moves) and independence checked by conservation after dropping either side. Exploration.",
            "seeded history simulation with ledger origins"),
    "C13": ("§3 C13", "Buffers of every pair of compiled capacities and rotations are compared (==, !=, partial_cmp, cmp, Hash through a recording hasher, == with slices/arrays/refs and with a buffer of another element type, Debug under 8 flag sets) against the model sequences; a second batch compares every byte buffer of the io scenario after every step with a freshly built buffer of the same contents (==, cmp, Debug, and Hash through a recording hasher that is sensitive to how the byte stream is cut into write() calls). Exploration.",
            "seeded simulation of buffer pairs against sequence model"),
    "C14": ("§3 C14", "A byte buffer used as a lossy pipe between a producer and a consumer whose interleaving (runs, stalls) the seeded scheduler chooses; every std::io required and provided method, io::copy in both directions with faulty stream peers (short transfers, Interrupted, Ok(0), hard errors), all checked against a keep-newest-N byte-stream model; never Err, never panics, for N in {0,1,2,3,4,5,8,16,64}. Exploration.",
            "deterministic simulation of producer/consumer schedules with faulty stream peers against a byte-stream model"),
    "C16": ("§3 C16", "The same script is executed through std::io, embedded_io and embedded_io_async (own poll-once executor, Pending is a violation); per-step traces (counts, bytes, contents) must be identical and each must match the byte model. Builds: both features (quick), plus each feature alone (thorough). Exploration.",
            "differential simulation of one script across three trait families with a poll-once executor"),
    "C17": ("§3 C17", "The simulator owns the global allocator: allocations inside an operation window (outside harness-owned hooks) are counted for every non-panicking call in the deque, io and zst scenarios, in builds with features std, alloc and none, plus a batch at capacity 40 so that size thresholds in the crate can be crossed; plus cargo build of the crate itself with no features and with alloc only (compile-time half, labelled as such). Exploration.",
            "allocator seam: counting global allocator around every simulated call + feature-set builds"),
    "C18": ("§3 C18", "The same seeds (fault-free and all fault families, deque + io + zst scenarios) are executed on nightly with default features and on nightly with the `unstable` feature; per-run digests of the full observable trace (returns, contents, panics, lifecycle events) must be equal; a differing run is shrunk by subprocess ddmin and reported with the first diverging event. Exploration.",
            "differential replay of identical seeded schedules and fault sequences on two builds"),
    "C19": ("§3 C19", "A drop-counting zero-sized element with capacities {1, 2, 2^32±1, 2^32, 2^63±1, 2^63, usize::MAX-1, usize::MAX}, front position driven to within 3 slots of 0 and of N, lengths <= 10, all operations whose cost is independent of N; count model (lengths, return shapes, documented panics, created-destroyed = live) with overflow checks on. Exploration.",
            "seeded history simulation with a count model at extreme capacities"),
    "C20": ("§3 C20", "Relocation monitor on every fault-free step: addresses of surviving elements (by id) before and after the call, compared with the bound the property states for the operation. Exploration.",
            "seeded history simulation with element-relocation monitor"),
}

_B = "Further batches of the same oracle: capacity 40 (size thresholds), "
EXTRA = {
    "C01": _B + "128-byte elements (build dbg-big), byte buffers through the generic deque operations (io scenario), zero-sized elements at extreme capacities (zst scenario). ",
    "C03": _B + "128-byte elements, zero-sized elements with a drop counter. ",
    "C05": _B + "128-byte elements. ",
    "C06": _B + "128-byte elements, a panicking by-reference iterator on byte buffers (Extend<&u8>). ",
    "C07": _B[:-2] + ". ",
    "C08": _B[:-2] + ". ",
    "C09": _B + "128-byte elements, byte buffers, zero-sized elements. ",
    "C10": _B + "128-byte elements, zero-sized elements with a drop counter. ",
    "C11": "Further batches: byte buffers and zero-sized elements at extreme capacities. ",
    "C12": _B + "128-byte elements, zero-sized elements. ",
    "C13": _B + "byte buffers compared with a freshly built twin after every step, zero-sized elements with a never-equal partner type, NaN-like (unordered) element values. ",
    "C20": _B + "128-byte elements, byte buffers (identity = value while stamps are distinct). ",
}

NA = [
    {"property_id": "C15", "reason": "compile-time contracts (variance, borrows, const, auto traits): decided by rustc accepting/rejecting witness programs; nothing executes, so there is no schedule, fault or history for a simulator to control"},
]

PENDING = {
}


def main():
    checks = []
    for pid in sorted(PLANS):
        ref, text, tech = TEXT[pid]
        c = {
            "property_id": pid,
            "quick_cmd": f"./check {pid} quick",
            "thorough_cmd": f"./check {pid} thorough",
            "evidence_file": f"/verif/evidence/{pid}.json",
            "replay_cmd_template": "./check replay {path}",
            "engine": "cbsim",
            "level_claimed": {"category": LEVELS[pid], "text": text, "design_ref": "DESIGN.md " + ref},
            "level_note": EXTRA.get(pid, "") + "Trusted base: the reference model and ledger in sim/src (a few hundred lines), rustc/std, the guarded hook (two accessors). Sampling, not proof; capacities <= 11 for tracked elements; 64-bit Linux only.",
            "technique": tech,
        }
        checks.append(c)
    na = list(NA)
    for pid, why in PENDING.items():
        if pid not in PLANS:
            na.append({"property_id": pid, "reason": why})
    m = {
        "version": 1,
        "setup_cmd": "./check setup",
        "hooks": {
            "guard": "--cfg circular_buffer_verif",
            "enable": "sim/.cargo/config.toml sets build.rustflags = [\"--cfg\", \"circular_buffer_verif\"] for every build of the simulator (path dependency on /repo)",
            "baseline_off_cmd": "cd /repo && cargo test --workspace --no-fail-fast --offline",
            "source_commits": ["93ee18c"],
            "add_only": True,
        },
        "engines": [{"name": "cbsim", "path": "/verif/sim", "serves_properties": sorted(PLANS), "kind_free_text": "deterministic simulator with fault injection: seeded script generator, executor over the real crate, reference model + ledger oracles, in-process minimiser; driver ./check"}],
        "checks": checks,
        "not_applicable": na,
        "notes": "All checks honour VERIF_SEED (default 1). Exit 2 = harness error. Replay files are scripts (text) under /verif/replays; ./check replay <file> re-executes one in a fresh process.",
    }
    with open(os.path.join(os.path.dirname(os.path.abspath(__file__)), "MANIFEST.json"), "w") as f:
        json.dump(m, f, indent=1)
    print("wrote MANIFEST.json with", len(checks), "checks;", len(na), "not applicable")


if __name__ == "__main__":
    main()
