#!/usr/bin/env python3
"""Seeded-change bookkeeping.

  seed_eval.py verify <src_dir> <prop> <letter> [--features F] [--nightly]
        confirm in a scratch worktree that the change compiles, passes the existing suite,
        and that its demonstration fails with it and passes without; then file it under
        /verif/seeded/<prop>-<letter>/ (patch.diff, demo, meta.json)
  seed_eval.py run <id> [--only C01,C02]
        apply /verif/seeded/<id>/patch.diff to /repo, run the quick checks, undo, record which
        checks reported a violation in /verif/seeded/<id>/result.json
  seed_eval.py table
        print the detection matrix
"""
import json
import os
import re
import shutil
import subprocess
import sys
import time

VERIF = "/verif"
SEEDED = os.path.join(VERIF, "seeded")
ALL = ["C01", "C02", "C03", "C04", "C05", "C06", "C07", "C08", "C09", "C10", "C11", "C12", "C13", "C14", "C16", "C17", "C18", "C19", "C20"]


def sh(cmd, cwd=None, env=None, timeout=None):
    e = dict(os.environ)
    e["CARGO_NET_OFFLINE"] = "true"
    if env:
        e.update(env)
    p = subprocess.run(cmd, cwd=cwd, env=e, stdout=subprocess.PIPE, stderr=subprocess.STDOUT, text=True, shell=isinstance(cmd, str), timeout=timeout)
    return p.returncode, p.stdout


def verify(src, prop, letter, features=None, nightly=False):
    sid = f"{prop}-{letter}"
    patch = os.path.join(src, f"mutant{letter}.diff")
    demo = None
    for ext in (".rs", ".sh"):
        c = os.path.join(src, f"demo{letter}{ext}")
        if os.path.exists(c):
            demo = c
    if not os.path.exists(patch) or not demo:
        print("missing patch or demo in", src)
        return False
    wt = f"/tmp/sv-{sid}"
    sh(["git", "-C", "/repo", "worktree", "remove", "--force", wt])
    rc, out = sh(["git", "-C", "/repo", "worktree", "add", "--detach", wt, "HEAD"])
    if rc != 0:
        print(out)
        return False
    env = {"CARGO_TARGET_DIR": wt + "/target"}
    res = {"id": sid, "property": prop}
    ok = True
    try:
        tc = ["cargo"] + (["+nightly"] if nightly else [])
        feat = (["--features", features] if features else [])
        is_sh = demo.endswith(".sh")
        tname = f"seeded_demo_{letter.lower()}"

        def run_demo():
            if is_sh:
                os.makedirs(os.path.join(wt, "out"), exist_ok=True)
                dst = os.path.join(wt, "out", "demo.sh")
                txt = open(demo).read().replace(f"/tmp/wt-{prop}", wt)
                open(dst, "w").write(txt)
                return sh(["bash", "out/demo.sh"], cwd=wt, env=env, timeout=900)
            shutil.copy(demo, os.path.join(wt, "tests", tname + ".rs"))
            r = sh(tc + ["test", "--offline"] + feat + ["--test", tname, "--", "--test-threads=1"], cwd=wt, env=env, timeout=900)
            os.unlink(os.path.join(wt, "tests", tname + ".rs"))
            return r

        rc, out = run_demo()
        res["demo_passes_without_change"] = rc == 0
        if rc != 0:
            print("demo FAILS on pristine tree:\n", out[-1500:])
            ok = False
        rc, out = sh(["git", "apply", patch], cwd=wt)
        res["patch_applies"] = rc == 0
        if rc != 0:
            print("patch does not apply:", out)
            return False
        rc, out = sh(["cargo", "build", "--offline"], cwd=wt, env=env)
        res["builds"] = rc == 0
        if rc != 0:
            print("does not build:\n", out[-1500:])
            ok = False
        rc, out = sh(["cargo", "test", "--workspace", "--no-fail-fast", "--offline"], cwd=wt, env=env, timeout=1800)
        passed = sum(int(x) for x in re.findall(r"test result: ok\. (\d+) passed", out))
        failed = sum(int(x) for x in re.findall(r"(\d+) failed", out))
        res["suite_rc"] = rc
        res["suite_passed"] = passed
        res["suite_failed"] = failed
        if rc != 0 or failed:
            print("existing suite FAILS with the change:\n", "\n".join(l for l in out.splitlines() if "FAILED" in l or "failed" in l)[:1500])
            ok = False
        rc, out = run_demo()
        res["demo_fails_with_change"] = rc != 0
        if rc == 0:
            print("demo PASSES with the change applied")
            ok = False
        res["demo_output_tail"] = out[-600:]
    finally:
        sh(["git", "-C", "/repo", "worktree", "remove", "--force", wt])
        shutil.rmtree(wt, ignore_errors=True)
    res["confirmed"] = ok
    print(json.dumps({k: v for k, v in res.items() if k != "demo_output_tail"}))
    if ok:
        d = os.path.join(SEEDED, sid)
        os.makedirs(d, exist_ok=True)
        shutil.copy(patch, os.path.join(d, "patch.diff"))
        shutil.copy(demo, os.path.join(d, "demo" + os.path.splitext(demo)[1]))
        rep = os.path.join(src, "REPORT.md")
        needs = ""
        if os.path.exists(rep):
            shutil.copy(rep, os.path.join(d, "AGENT_REPORT.md"))
        notes = os.path.join(src, "NOTES.txt")
        if os.path.exists(notes):
            shutil.copy(notes, os.path.join(d, "AGENT_NOTES.txt"))
        meta = {
            "id": sid,
            "breaks_property": prop,
            "origin": "written by an independent sub-agent that saw only the property text and a scratch worktree",
            "needs_to_manifest": needs or "see AGENT_REPORT.md (section for mutant %s)" % letter,
            "demo_command": ("bash out/demo.sh (script placed in <crate>/out/)" if demo.endswith(".sh") else "cargo %stest --offline %s--test <demo>" % ("+nightly " if nightly else "", ("--features %s " % features) if features else "")),
            "confirmed_by_me": {
                "patch_applies_to_repo_head": res["patch_applies"], "builds": res["builds"],
                "existing_suite": f"{res['suite_passed']} passed, {res['suite_failed']} failed (cargo test --workspace --no-fail-fast --offline)",
                "demo_fails_with_change": res["demo_fails_with_change"], "demo_passes_without_change": res["demo_passes_without_change"],
                "when": time.strftime("%Y-%m-%d %H:%M"),
            },
        }
        json.dump(meta, open(os.path.join(d, "meta.json"), "w"), indent=1)
    return ok


def run(sid, only=None):
    d = os.path.join(SEEDED, sid)
    patch = os.path.join(d, "patch.diff")
    rc, out = sh(["git", "-C", "/repo", "status", "--porcelain", "--untracked-files=no"])
    if out.strip():
        print("/repo is not clean:", out)
        return None
    rc, out = sh(["git", "-C", "/repo", "apply", patch])
    if rc != 0:
        print("patch does not apply to /repo:", out)
        return None
    results = {}
    try:
        t0 = time.time()
        rc, out = sh(["./check", "setup"], cwd=VERIF, timeout=1800)
        setup_ok = rc == 0
        for pid in (only or ALL):
            t1 = time.time()
            try:
                rc, out = sh(["./check", pid, "quick"], cwd=VERIF, timeout=1500)
            except subprocess.TimeoutExpired:
                rc, out = 124, "timeout"
            viol = [l for l in out.splitlines() if l.startswith("VIOLATION")]
            msgs = [l for l in out.splitlines() if l.startswith("# ")]
            results[pid] = {"rc": rc, "violation": bool(viol) and rc == 1, "wall_s": round(time.time() - t1, 1), "first_message": (msgs[0][:300] if msgs else ""),
                            "harness_error": (out[-300:] if rc not in (0, 1) else "")}
        wall = time.time() - t0
    finally:
        sh(["git", "-C", "/repo", "checkout", "--", "."])
    prop = sid.split("-")[0]
    summary = {"id": sid, "target_property": prop, "setup_ok": setup_ok, "detected_by_target_check": results.get(prop, {}).get("violation", False),
               "detected_by": [p for p, r in results.items() if r["violation"]], "harness_errors": [p for p, r in results.items() if r["rc"] not in (0, 1)],
               "tier": "quick", "wall_s": round(wall, 1), "checks": results}
    if only is not None:
        summary["checks_run"] = list(only)
        summary["note"] = "only the listed checks were run (applied to /repo itself, then reverted)"
    json.dump(summary, open(os.path.join(d, "result.json"), "w"), indent=1)
    print(sid, "target", prop, "detected_by", summary["detected_by"], "harness_errors", summary["harness_errors"], f"{wall:.0f}s")
    return summary


def table():
    rows = []
    desc = {}
    dp = os.path.join(SEEDED, "DESCRIPTIONS.json")
    if os.path.exists(dp):
        desc = json.load(open(dp))
    for sid in sorted(os.listdir(SEEDED)):
        if not os.path.isdir(os.path.join(SEEDED, sid)):
            continue
        # fold the description into meta.json
        mp = os.path.join(SEEDED, sid, "meta.json")
        if sid in desc and os.path.exists(mp):
            m = json.load(open(mp))
            m["what_was_changed"] = desc[sid]["what"]
            m["needs_to_manifest"] = desc[sid]["needs"]
            json.dump(m, open(mp, "w"), indent=1)
        r = os.path.join(SEEDED, sid, "result.json")
        if os.path.exists(r):
            j = json.load(open(r))
            only = "" if len(j.get("checks_run", ALL)) == len(ALL) else "  (only the target check was run)"
            rows.append((sid, j["detected_by_target_check"], ",".join(j["detected_by"]) + only, ",".join(j.get("harness_errors", []))))
        else:
            rows.append((sid, None, "(not run)", ""))
    lines = []
    for r in rows:
        lines.append(f"{r[0]:8} target={'yes' if r[1] else ('NO' if r[1] is False else '?'):3}  caught by: {r[2]}  {('harness errors: ' + r[3]) if r[3] else ''}".rstrip())
    hit = sum(1 for r in rows if r[1])
    lines.append(f"# {hit} of {len(rows)} seeded changes are reported by the quick check of their target property")
    open(os.path.join(SEEDED, "MATRIX.txt"), "w").write("\n".join(lines) + "\n")
    print("\n".join(lines))


if __name__ == "__main__":
    a = sys.argv[1:]
    if a[0] == "verify":
        feats = None
        nightly = "--nightly" in a
        if "--features" in a:
            feats = a[a.index("--features") + 1]
        sys.exit(0 if verify(a[1], a[2], a[3], feats, nightly) else 1)
    elif a[0] == "run":
        only = None
        if "--only" in a:
            only = a[a.index("--only") + 1].split(",")
        sys.exit(0 if run(a[1], only) else 1)
    elif a[0] == "table":
        table()
