//! Without the crate's `std` feature there are no io impls: the io scenario is unavailable.
use crate::exec::Outcome;
use crate::script::Script;
pub fn run(_s: &Script, _k: bool) -> Outcome {
    crate::harness_fail("the io scenario needs the crate's `std` feature".into())
}
pub fn run_transports(_s: &Script, _k: bool) -> Outcome {
    crate::harness_fail("the io scenario needs the crate's `std` feature".into())
}
pub fn gen_io(seed: u64, prop: &str, run: u64) -> Script {
    let _ = (seed, prop, run);
    Script { scenario: crate::script::Scenario::Io, n: 0, origin: String::new(), garbage: crate::script::Garbage::None, garbage_seed: 0, boxed: false, transport: 0, steps: Vec::new() }
}
