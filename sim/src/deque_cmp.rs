//! Constructors / conversions (C12) and comparisons / hashing / Debug (C13).

use crate::deque::{Buf, Ex, OpOut};
use crate::deque_ops::SrcIter;
use crate::deque_sess::HookWriter;
use crate::elem::{window, Origin, Plain, RecHasher, Tracked, H};
use crate::exec::{cls, Probe};
use crate::script::{Op, Step};
use circular_buffer::CircularBuffer;
use std::cmp::Ordering;
use std::fmt::Write as _;
use std::hash::{Hash, Hasher};

fn from_array_n<const N: usize, const M: usize>(v: Vec<Tracked>) -> Buf<N> {
    let arr: [Tracked; M] = match v.try_into() {
        Ok(a) => a,
        Err(_) => unreachable!(),
    };
    Buf::<N>::from(arr)
}

pub const MAX_ARRAY: usize = 17;

fn from_array_dispatch<const N: usize>(v: Vec<Tracked>) -> Buf<N> {
    macro_rules! arms {
        ($($m:literal)*) => {
            match v.len() {
                $($m => from_array_n::<N, $m>(v),)*
                _ => unreachable!(),
            }
        };
    }
    arms!(0 1 2 3 4 5 6 7 8 9 10 11 12 13 14 15 16 17)
}

fn origin_of(id: u32) -> Option<Origin> {
    H.with(|h| h.borrow().ents.get(id as usize).map(|e| e.origin))
}

fn lex_cmp(a: &[u32], b: &[u32]) -> Ordering {
    a.cmp(b)
}

impl<const N: usize> Ex<N> {
    /// Replaces buffer `x` by `nb`, dropping the old one in its own window first.
    fn replace_buf(&mut self, x: usize, nb: Box<Buf<N>>) {
        let old = self.bufs[x].take().unwrap();
        self.bufs[x] = Some(nb);
        let r = self.win(move || drop(old));
        let _ = self.settle(r, false, cls::LEDGER);
    }

    pub fn op_from_array(&mut self, st: &Step, x: usize) -> OpOut {
        let mut out = OpOut::new(cls::CTOR);
        out.nontrivial = true;
        out.may_alloc = true;
        let mut vals = st.vals.clone();
        vals.truncate(MAX_ARRAY);
        let m = vals.len();
        out.argclass = if m < N { 0 } else if m == N { 1 } else { 2 } + 3 * (m.min(3) as u64);
        let src: Vec<Tracked> = vals.iter().map(|v| self.take_elem(0, *v)).collect();
        let ids: Vec<(u32, u32)> = src.iter().map(|t| (t.id, t.val)).collect();
        let r = window(move || from_array_dispatch::<N>(src));
        self.allocs += crate::alloc::take_op_allocs();
        self.allocs = 0; // Vec -> array conversion of the harness is not the crate's
        if let Some(nb) = self.settle(r, false, out.own) {
            let keep = m.min(N);
            self.replace_buf(x, Box::new(nb));
            self.models[x] = ids[m - keep..].iter().copied().collect();
        }
        out
    }

    pub fn op_from_iter(&mut self, st: &Step, x: usize) -> OpOut {
        let mut out = OpOut::new(cls::CTOR);
        out.nontrivial = true;
        out.may_alloc = true;
        let k = st.vals.len();
        out.argclass = if k < N { 0 } else if k == N { 1 } else { 2 } + 3 * (st.b as u64 % 6);
        let it = SrcIter::new(&st.vals, [0, 1, 2, 3, 4, 5][st.b % 6]);
        let made = it.made.clone();
        let r = window(move || it.collect::<Buf<N>>());
        self.allocs += crate::alloc::take_op_allocs();
        if let Some(nb) = self.settle(r, false, out.own) {
            let made = made.borrow().clone();
            let keep = made.len().min(N);
            self.replace_buf(x, Box::new(nb));
            self.models[x] = made[made.len() - keep..].iter().copied().collect();
            if made.len() != k {
                self.fail(out.own, format!("from_iter pulled {} items from an iterator of {}", made.len(), k));
            }
        }
        out
    }

    pub fn op_clone(&mut self, st: &Step, x: usize) -> OpOut {
        let mut out = OpOut::new(cls::CTOR);
        out.nontrivial = true;
        out.may_alloc = true;
        let y = 1 - x;
        let src: Vec<(u32, u32)> = self.models[x].iter().copied().collect();
        out.argclass = (st.op == Op::CloneFrom) as u64 * 16 + (self.models[y].len().min(3) as u64) * 4 + src.len().min(3) as u64;
        let ok;
        if st.op == Op::CloneTo {
            let b = self.bufs[x].as_ref().unwrap();
            let r = window(|| Box::new((**b).clone()));
            self.allocs += crate::alloc::take_op_allocs();
            match self.settle(r, false, out.own) {
                Some(nb) => {
                    self.replace_buf(y, nb);
                    self.models[y].clear();
                    ok = true;
                }
                None => ok = false,
            }
        } else {
            let mut by = self.bufs[y].take().unwrap();
            {
                let b = self.bufs[x].as_ref().unwrap();
                let byr: &mut Buf<N> = &mut by;
                let r = window(|| byr.clone_from(b));
                self.allocs += crate::alloc::take_op_allocs();
                ok = self.settle(r, false, out.own).is_some();
            }
            self.bufs[y] = Some(by);
            if ok {
                self.models[y].clear();
            }
        }
        if ok && self.fail.is_none() && self.faulted.is_none() {
            // the same for an element type WITHOUT drop glue whose Clone is observable: every
            // element of the copy must be the result of one T::clone call (not a bit copy)
            use crate::elem::{NoDrop, NODROP_CLONES};
            let (start, _) = self.bufs[x].as_ref().unwrap().verif_layout();
            let mut nb: CircularBuffer<N, NoDrop> = CircularBuffer::new();
            if N > 0 {
                for _ in 0..start % N {
                    nb.push_back(NoDrop { val: 0, gen: 0 });
                    nb.pop_front();
                }
            }
            for (_, v) in src.iter() {
                nb.push_back(NoDrop { val: *v, gen: 0 });
            }
            NODROP_CLONES.with(|c| c.set(0));
            let nbr = &nb;
            let from = st.op == Op::CloneFrom;
            let r = window(move || {
                if from {
                    let mut d: CircularBuffer<N, NoDrop> = CircularBuffer::new();
                    d.push_back(NoDrop { val: 9, gen: 9 });
                    d.clone_from(nbr);
                    d
                } else {
                    nbr.clone()
                }
            });
            self.allocs += crate::alloc::take_op_allocs();
            if let Some(c) = self.settle(r, false, out.own) {
                let calls = NODROP_CLONES.with(|c| c.get());
                let got: Vec<(u32, u32)> = c.iter().map(|e| (e.val, e.gen)).collect();
                let want: Vec<(u32, u32)> = src.iter().map(|(_, v)| (*v, 1)).collect();
                if got != want || calls != src.len() as u64 {
                    self.fail(out.own | cls::CONTENTS, format!("{} of a buffer of elements without drop glue: copy holds (val, generation) {got:?} after {calls} T::clone calls, expected {want:?} (one clone per element)", st.op.name()));
                }
            }
        }
        if ok && self.fail.is_none() {
            // y must hold element-wise clones of x's elements, in order; x untouched (strict
            // contents check of x follows in the post-step)
            let items = self.items(y);
            let mut good = items.len() == src.len();
            if good {
                for (it, s) in items.iter().zip(src.iter()) {
                    if it.val != s.1 || origin_of(it.id) != Some(Origin::CloneOf(s.0)) || it.class != crate::elem::Class::Live {
                        good = false;
                    }
                }
            }
            if !good {
                let got: Vec<(u32, u32)> = items.iter().map(|i| (i.id, i.val)).collect();
                // clones that were made but are in neither buffer (nothing is in flight here):
                // the same failure is an ownership failure too (C03)
                let mut owned: Vec<u32> = items.iter().map(|i| i.id).collect();
                owned.extend(self.items(x).iter().map(|i| i.id));
                owned.extend(self.hand.iter().map(|t| t.id));
                owned.sort_unstable();
                let lost: Vec<u32> = crate::elem::H.with(|h| {
                    let h = h.borrow();
                    h.ents.iter().enumerate().skip(1).filter(|(id, e)| e.drops == 0 && !e.leaked && owned.binary_search(&(*id as u32)).is_err()).map(|(id, _)| id as u32).collect()
                });
                let (led, also) = if lost.is_empty() {
                    (0, String::new())
                } else {
                    (cls::LEDGER, format!(" [also: elements {:?} are alive but neither in a buffer nor with the caller (leaked)]", &lost[..lost.len().min(8)]))
                };
                self.fail(out.own | cls::CONTENTS | led, format!("{}: destination holds {got:?}, expected fresh element-wise clones of {src:?}{also}", st.op.name()));
            } else {
                self.models[y] = items.iter().map(|i| (i.id, i.val)).collect();
            }
        }
        out
    }

    // ------------------------------------------------------------------ comparisons
    pub fn op_cmp_bufs(&mut self, _st: &Step, x: usize) -> OpOut {
        let mut out = OpOut::new(cls::CMP);
        out.nontrivial = true;
        out.reloc_bound = Some(0);
        let y = 1 - x;
        let va: Vec<u32> = self.models[x].iter().map(|e| e.1).collect();
        let vb: Vec<u32> = self.models[y].iter().map(|e| e.1).collect();
        let want_eq = va == vb;
        let want_ord = lex_cmp(&va, &vb);
        out.argclass = want_eq as u64 * 4 + (want_ord as i8 + 1) as u64;
        let a = self.bufs[x].as_ref().unwrap();
        let b = self.bufs[y].as_ref().unwrap();
        let r = window(|| {
            let mut ha = RecHasher::new();
            let mut hb = RecHasher::new();
            a.hash(&mut ha);
            b.hash(&mut hb);
            (**a == **b, **a != **b, (**a).partial_cmp(&**b), (**a).cmp(&**b), ha.finish(), hb.finish())
        });
        self.allocs += crate::alloc::take_op_allocs();
        if let Some((eq, ne, pc, c, ha, hb)) = self.settle(r, false, out.own) {
            let _ = write!(self.trace.line(), " r={}{}{:?}{:?}{}", eq as u8, ne as u8, pc, c, (ha == hb) as u8);
            if eq != want_eq || ne == want_eq {
                self.fail(out.own, format!("A == B is {eq} (A != B is {ne}) but the sequences are {va:?} and {vb:?}"));
            } else if pc != Some(want_ord) || c != want_ord {
                self.fail(out.own, format!("partial_cmp = {pc:?}, cmp = {c:?}, lexicographic order of {va:?} vs {vb:?} is {want_ord:?}"));
            } else if want_eq && ha != hb {
                self.fail(out.own, format!("equal buffers {va:?} hash differently"));
            }
        }
        out
    }

    pub fn op_eq_slice(&mut self, st: &Step, x: usize) -> OpOut {
        let mut out = OpOut::new(cls::CMP);
        out.nontrivial = true;
        out.reloc_bound = Some(0);
        let va: Vec<u32> = self.models[x].iter().map(|e| e.1).collect();
        let mut vs: Vec<u32> = va.clone();
        match st.c % 5 {
            1 => {
                if !vs.is_empty() {
                    let p = st.a % vs.len();
                    vs[p] = (vs[p] + 1) % 3;
                }
            }
            2 => {
                vs.pop();
            }
            3 => vs.push(st.vals.first().copied().unwrap_or(0) % 3),
            4 => vs = st.vals.iter().map(|v| v % 3).collect(),
            _ => {}
        }
        vs.truncate(MAX_ARRAY);
        let want = va == vs;
        out.argclass = (st.b as u64 % 6) * 8 + (st.c as u64 % 5);
        let mut plain: Vec<Plain> = vs.iter().map(|v| Plain(*v)).collect();
        let form = st.b % 6;
        let b = self.bufs[x].as_ref().unwrap();
        let r = window(|| -> bool {
            match form {
                0 => {
                    let e = **b == plain[..];
                    // `!=` must be the negation (an explicit `ne` could disagree)
                    if (**b != plain[..]) == e {
                        return !want;
                    }
                    e
                }
                1 => **b == &plain[..],
                2 => **b == &mut plain[..],
                _ => {
                    macro_rules! arms {
                        ($($m:literal)*) => {
                            match plain.len() {
                                $($m => {
                                    let mut arr: [Plain; $m] = plain.clone().try_into().unwrap_or([Plain(0); $m]);
                                    match form {
                                        3 => **b == arr,
                                        4 => **b == &arr,
                                        _ => **b == &mut arr,
                                    }
                                })*
                                _ => **b == plain[..],
                            }
                        };
                    }
                    arms!(0 1 2 3 4 5 6 7 8 9 10 11 12 13 14 15 16 17)
                }
            }
        });
        self.allocs = 0; // the harness clones its own Vec<Plain> inside the window
        let _ = crate::alloc::take_op_allocs();
        if let Some(eq) = self.settle(r, false, out.own) {
            let _ = write!(self.trace.line(), " r={}", eq as u8);
            if eq != want {
                self.fail(out.own, format!("buffer {va:?} == slice/array {vs:?} (form {form}) gave {eq}"));
            }
        }
        out
    }

    pub fn op_debug_fmt(&mut self, st: &Step, x: usize) -> OpOut {
        let mut out = OpOut::new(cls::CMP | cls::VIEW);
        out.nontrivial = true;
        out.reloc_bound = Some(0);
        out.argclass = st.b as u64 % 8;
        let plain: Vec<Plain> = self.models[x].iter().map(|e| Plain(e.1)).collect();
        let flag = st.b % 8;
        let want = match flag {
            0 => format!("{:?}", &plain[..]),
            1 => format!("{:#?}", &plain[..]),
            2 => format!("{:4?}", &plain[..]),
            3 => format!("{:<6?}", &plain[..]),
            4 => format!("{:+?}", &plain[..]),
            5 => format!("{:02x?}", &plain[..]),
            6 => format!("{:#06X?}", &plain[..]),
            _ => format!("{:>8.3?}", &plain[..]),
        };
        let b = self.bufs[x].as_ref().unwrap();
        let mut hw = HookWriter(String::new());
        let r = window(|| match flag {
            0 => write!(hw, "{:?}", **b),
            1 => write!(hw, "{:#?}", **b),
            2 => write!(hw, "{:4?}", **b),
            3 => write!(hw, "{:<6?}", **b),
            4 => write!(hw, "{:+?}", **b),
            5 => write!(hw, "{:02x?}", **b),
            6 => write!(hw, "{:#06X?}", **b),
            _ => write!(hw, "{:>8.3?}", **b),
        });
        self.allocs += crate::alloc::take_op_allocs();
        if self.settle(r, false, out.own).is_some() {
            let _ = write!(self.trace.line(), " r={}", hw.0.len());
            if hw.0 != want {
                self.fail(out.own, format!("Debug (flag set {flag}) printed {:?}, the equivalent slice prints {:?}", hw.0, want));
            }
        }
        out
    }

    /// Compares buffer `x` with a temporary buffer of capacity `M` (any of the compiled
    /// capacities) at rotation `st.b`, whose contents relate to `x`'s as `st.c` says.
    pub fn op_cross_cmp(&mut self, st: &Step, x: usize) -> OpOut {
        let mut out = OpOut::new(cls::CMP);
        out.nontrivial = true;
        out.reloc_bound = Some(0);
        let mut va: Vec<u32> = self.models[x].iter().map(|e| e.1).collect();
        // relation 5: a NaN-like (unordered) value at the same position of both sequences, and a
        // difference right after it: partial_cmp must be None whatever the layouts are
        let mut nan_restore: Option<(usize, u32)> = None;
        if st.c % 6 == 5 && !va.is_empty() {
            let p = st.a / 16 % va.len();
            if let Some(t) = self.bufs[x].as_mut().unwrap().get_mut(p) {
                nan_restore = Some((p, va[p]));
                t.set_val(crate::elem::NAN_VAL);
                self.models[x][p].1 = crate::elem::NAN_VAL;
                va[p] = crate::elem::NAN_VAL;
            }
        }
        let mut vs = va.clone();
        if nan_restore.is_some() {
            let p = nan_restore.unwrap().0;
            if p + 1 < vs.len() {
                vs[p + 1] = (vs[p + 1] + 1) % 3;
            } else if st.b % 2 == 0 {
                vs.push(1);
            }
        }
        match if nan_restore.is_some() { 0 } else { st.c % 6 % 5 } {
            1 => {
                if !vs.is_empty() {
                    let p = st.a / 16 % vs.len();
                    vs[p] = (vs[p] + 1) % 3;
                }
            }
            2 => {
                vs.pop();
            }
            3 => vs.push(st.vals.first().copied().unwrap_or(0) % 3),
            4 => vs = st.vals.iter().map(|v| v % 3).collect(),
            _ => {}
        }
        let m = st.a % 16;
        out.argclass = (m as u64) * 8 + st.c as u64 % 5;
        macro_rules! arms {
            ($($m:literal)*) => {
                match m {
                    $($m => self.cross::<$m>(x, &va, vs, st.b, out.own),)*
                    _ => self.cross::<{ N }>(x, &va, vs, st.b, out.own),
                }
            };
        }
        arms!(0 1 2 3 4 5 6 8 11);
        if let Some((p, old)) = nan_restore {
            if let Some(t) = self.bufs[x].as_mut().and_then(|b| b.get_mut(p)) {
                if t.val == crate::elem::NAN_VAL {
                    t.set_val(old);
                    self.models[x][p].1 = old;
                }
            }
        }
        out
    }

    fn cross<const M: usize>(&mut self, x: usize, va: &[u32], mut vs: Vec<u32>, rot: usize, own: u32) {
        // keep-newest-M
        if vs.len() > M {
            vs.drain(..vs.len() - M);
        }
        let mut t: Box<CircularBuffer<M, Tracked>> = Box::new(CircularBuffer::new());
        if M > 0 {
            for _ in 0..(rot % M) {
                t.push_back(Tracked::new(0, Origin::Harness));
                drop(t.pop_front());
            }
        }
        for v in &vs {
            t.push_back(Tracked::new(*v, Origin::Harness));
        }
        let want_eq = va.len() == vs.len() && va.iter().zip(vs.iter()).all(|(a, b)| a == b && *a != crate::elem::NAN_VAL);
        let want_ord = lex_cmp(va, &vs);
        let has_nan = va.contains(&crate::elem::NAN_VAL) || vs.contains(&crate::elem::NAN_VAL);
        let want_partial: Option<Ordering> = {
            let mut r: Option<Option<Ordering>> = None;
            for (a, b) in va.iter().zip(vs.iter()) {
                if *a == crate::elem::NAN_VAL || *b == crate::elem::NAN_VAL {
                    r = Some(None);
                    break;
                }
                if a != b {
                    r = Some(Some(a.cmp(b)));
                    break;
                }
            }
            r.unwrap_or(Some(va.len().cmp(&vs.len())))
        };
        {
            let (a0, _) = self.bufs[x].as_ref().unwrap().as_slices();
            let (b0, _) = t.as_slices();
            if va.len() == vs.len() {
                self.stats.probe(match a0.len().cmp(&b0.len()) {
                    Ordering::Less => Probe::EqBranchLess,
                    Ordering::Greater => Probe::EqBranchGreater,
                    Ordering::Equal => Probe::EqBranchEqual,
                });
            }
        }
        let a = self.bufs[x].as_ref().unwrap();
        let tr = &t;
        let a_has_nan = va.contains(&crate::elem::NAN_VAL);
        let r = window(|| {
            // comparing a buffer with itself is still element-wise (not reflexive for NaN-like values)
            #[allow(clippy::eq_op)]
            let self_eq = **a == **a;
            let eq1 = **a == **tr;
            let eq2 = **tr == **a;
            let ne = **a != **tr;
            let pc = (**a).partial_cmp(&**tr);
            let pc2 = (**tr).partial_cmp(&**a);
            // the four comparison operators (provided by PartialOrd, may be overridden)
            let ops = [**a < **tr, **a <= **tr, **a > **tr, **a >= **tr];
            let mut ha = RecHasher::new();
            let mut hb = RecHasher::new();
            a.hash(&mut ha);
            tr.hash(&mut hb);
            (eq1, eq2, ne, pc, pc2, ha.finish(), hb.finish(), self_eq, ops)
        });
        self.allocs += crate::alloc::take_op_allocs();
        if let Some((eq1, eq2, ne, pc, pc2, ha, hb, self_eq, ops)) = self.settle(r, false, own) {
            let _ = write!(self.trace.line(), " r={}{}{}{:?}", eq1 as u8, eq2 as u8, ne as u8, pc);
            if self_eq == a_has_nan {
                self.fail(own, format!("buffer {va:?} compared with itself: == gave {self_eq} (element-wise equality; the NaN-like value {} is not equal to itself)", crate::elem::NAN_VAL));
            } else if eq1 != want_eq || eq2 != want_eq || ne == want_eq {
                self.fail(own, format!("capacity {N} buffer {va:?} vs capacity {M} buffer {vs:?}: a==b {eq1}, b==a {eq2}, a!=b {ne}"));
            } else if pc != want_partial || pc2 != want_partial.map(|o| o.reverse()) {
                self.fail(own, format!("partial_cmp of {va:?} vs {vs:?} (capacities {N}, {M}) = {pc:?} / reversed {pc2:?}"));
            } else if ops
                != [
                    want_partial == Some(Ordering::Less),
                    matches!(want_partial, Some(Ordering::Less | Ordering::Equal)),
                    want_partial == Some(Ordering::Greater),
                    matches!(want_partial, Some(Ordering::Greater | Ordering::Equal)),
                ]
            {
                self.fail(own, format!("{va:?} vs {vs:?} (capacities {N}, {M}): operators <, <=, >, >= gave {ops:?} but partial_cmp of the sequences is {want_partial:?}"));
            } else if want_eq && M == N && ha != hb {
                self.fail(own, format!("equal buffers {va:?} of the same capacity hash differently (layouts differ)"));
            }
        }
        if self.fail.is_none() && !self.window_panicked && self.faulted.is_none() {
            // cross-type equality: CircularBuffer<N, Tracked> == CircularBuffer<M, Plain>
            let mut tp: CircularBuffer<M, Plain> = CircularBuffer::new();
            if M > 0 {
                for _ in 0..((rot + 1) % M) {
                    tp.push_back(Plain(9));
                    tp.pop_front();
                }
            }
            for v in &vs {
                tp.push_back(Plain(*v));
            }
            let a = self.bufs[x].as_ref().unwrap();
            let tpr = &tp;
            let r = window(|| **a == *tpr);
            self.allocs += crate::alloc::take_op_allocs();
            if let Some(eq) = self.settle(r, false, own) {
                if eq != want_eq {
                    self.fail(own, format!("capacity {N} buffer {va:?} == capacity {M} buffer of plain values {vs:?} gave {eq}"));
                }
            }
        }
        if M == N && self.fail.is_none() && !self.window_panicked && !has_nan {
            // Ord needs the same type
            let a = self.bufs[x].as_ref().unwrap();
            let tr: &CircularBuffer<M, Tracked> = &t;
            // SAFETY-free cast: M == N at run time, go through Any-like pointer equality of types
            let same: Option<&CircularBuffer<N, Tracked>> = (tr as &dyn std::any::Any).downcast_ref();
            if let Some(tb) = same {
                let r = window(|| (**a).cmp(tb));
                self.allocs += crate::alloc::take_op_allocs();
                if let Some(c) = self.settle(r, false, own) {
                    if c != want_ord {
                        self.fail(own, format!("cmp of {va:?} vs {vs:?} = {c:?}"));
                    }
                }
            }
        }
        drop(t);
    }
}
