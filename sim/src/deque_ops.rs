//! Per-operation code of the deque scenario: performs the call(s) in operation windows,
//! compares results with the reference model, and updates model and hand.

use crate::deque::{new_buf, Buf, Ex, OpOut};
use crate::elem::{user_code_tick, FaultKind, HookScope, Origin, Tracked, H};
use crate::exec::{cls, Probe};
use crate::script::{Op, Step};
use std::fmt::Write as _;

fn idclass(i: usize, len: usize) -> u64 {
    if i == usize::MAX {
        5
    } else if len > 0 && i == len - 1 {
        1
    } else if i == len {
        2
    } else if i > len {
        3
    } else if i == 0 {
        0
    } else {
        4
    }
}

fn lenclass(k: usize, free: usize, n: usize) -> u64 {
    if k == 0 {
        0
    } else if k < free {
        1
    } else if k == free {
        2
    } else if k < n {
        3
    } else if k == n {
        4
    } else {
        5
    }
}

impl<const N: usize> Ex<N> {
    pub fn dispatch(&mut self, st: &Step, x: usize) -> OpOut {
        match st.op {
            Op::PushBack | Op::PushFront => self.op_push(st, x),
            Op::TryPushBack | Op::TryPushFront => self.op_try_push(st, x),
            Op::PopBack | Op::PopFront => self.op_pop(st, x),
            Op::Remove | Op::SwapRemoveBack | Op::SwapRemoveFront => self.op_remove(st, x),
            Op::Swap => self.op_swap(st, x),
            Op::TruncateBack | Op::TruncateFront | Op::Clear => self.op_truncate(st, x),
            Op::Fill | Op::FillSpare => self.op_fill(st, x),
            Op::FillWith | Op::FillSpareWith => self.op_fill_with(st, x),
            Op::ExtendFromSlice => self.op_extend_from_slice(st, x),
            Op::Extend => self.op_extend(st, x),
            Op::MakeContiguous => self.op_make_contiguous(st, x),
            Op::Drain => self.op_drain(st, x),
            Op::GetMut | Op::NthFrontMut | Op::NthBackMut | Op::FrontMut | Op::BackMut | Op::IndexMut | Op::AsMutSlices => self.op_mut_view(st, x),
            Op::IterMut | Op::RangeMut => self.op_iter_mut(st, x),
            Op::Index => self.op_index(st, x),
            Op::Iter | Op::Range | Op::IterDefault => self.op_iter(st, x),
            Op::IntoIter => self.op_into_iter(st, x),
            Op::ToVec => self.op_to_vec(st, x),
            Op::New | Op::DropBuf => self.op_new(st, x),
            Op::FromArray => self.op_from_array(st, x),
            Op::FromIter => self.op_from_iter(st, x),
            Op::CloneTo | Op::CloneFrom => self.op_clone(st, x),
            Op::CmpBufs => self.op_cmp_bufs(st, x),
            Op::EqSlice => self.op_eq_slice(st, x),
            Op::DebugFmt => self.op_debug_fmt(st, x),
            Op::CrossCmp => self.op_cross_cmp(st, x),
            Op::DropHand => {
                if !self.hand.is_empty() {
                    let i = st.a % self.hand.len();
                    let t = self.hand.swap_remove(i);
                    drop(t);
                }
                OpOut::new(0)
            }
            _ => {
                self.fail(cls::HARNESS, format!("op {} is not part of the deque scenario", st.op.name()));
                OpOut::new(0)
            }
        }
    }

    fn buf(&mut self, x: usize) -> &mut Buf<N> {
        self.bufs[x].as_mut().unwrap()
    }

    // ---------------------------------------------------------------- push / try_push
    fn op_push(&mut self, st: &Step, x: usize) -> OpOut {
        let back = st.op == Op::PushBack;
        let mut out = OpOut::new(cls::RET | cls::IDENT);
        out.reloc_bound = Some(2);
        let len = self.models[x].len();
        out.argclass = if len == N { 2 } else if len + 1 == N { 1 } else { 0 };
        out.nontrivial = true;
        let t = self.take_elem(st.c, st.vals.first().copied().unwrap_or(0));
        let (tid, tval) = (t.id, t.val);
        let b = self.bufs[x].as_mut().unwrap();
        let r = crate::elem::window(|| if back { b.push_back(t) } else { b.push_front(t) });
        self.allocs += crate::alloc::take_op_allocs();
        let Some(ret) = self.settle(r, false, out.own) else { return out };
        // model
        let m = &mut self.models[x];
        let want: Option<u32> = if N == 0 {
            Some(tid)
        } else if m.len() == N {
            let e = if back { m.pop_front() } else { m.pop_back() };
            if back {
                m.push_back((tid, tval))
            } else {
                m.push_front((tid, tval))
            }
            self.stats.probe(Probe::PushFullEvict);
            e.map(|e| e.0)
        } else {
            if back {
                m.push_back((tid, tval))
            } else {
                m.push_front((tid, tval))
            }
            None
        };
        let got = ret.as_ref().map(|t| t.id);
        let _ = write!(self.trace.line(), " r={:?}", got);
        if got != want {
            self.fail(out.own, format!("{} returned element {:?}, the displaced element should be {:?}", st.op.name(), got, want));
        }
        if let Some(t) = ret {
            self.check_returned(&t, out.own);
            self.adopt(t);
        }
        out
    }

    /// IDENT: an element handed back by the crate must be the live object itself.
    pub fn check_returned(&mut self, t: &Tracked, own: u32) {
        let c = H.with(|h| h.borrow().classify(t));
        if c != crate::elem::Class::Live {
            self.fail(own | cls::GARBAGE, format!("returned element id={} is {:?}, not the live element", t.id, c));
        }
    }

    fn op_try_push(&mut self, st: &Step, x: usize) -> OpOut {
        let back = st.op == Op::TryPushBack;
        let mut out = OpOut::new(cls::RET | cls::IDENT);
        out.reloc_bound = Some(2);
        let len = self.models[x].len();
        out.argclass = if len == N { 2 } else if len + 1 == N { 1 } else { 0 };
        out.nontrivial = true;
        let t = self.take_elem(st.c, st.vals.first().copied().unwrap_or(0));
        let (tid, tval) = (t.id, t.val);
        let b = self.bufs[x].as_mut().unwrap();
        let r = crate::elem::window(|| if back { b.try_push_back(t) } else { b.try_push_front(t) });
        self.allocs += crate::alloc::take_op_allocs();
        let Some(ret) = self.settle(r, false, out.own) else { return out };
        let m = &mut self.models[x];
        let full = m.len() == N;
        if !full {
            if back {
                m.push_back((tid, tval))
            } else {
                m.push_front((tid, tval))
            }
        }
        match ret {
            Ok(()) => {
                let _ = write!(self.trace.line(), " r=ok");
                if full {
                    self.fail(out.own, format!("{} returned Ok(()) on a full buffer (len {} == N {}); the element must come back in Err", st.op.name(), len, N));
                }
            }
            Err(t) => {
                let _ = write!(self.trace.line(), " r=err{}", t.id);
                if !full {
                    self.fail(out.own, format!("{} returned Err on a buffer with room (len {} < N {})", st.op.name(), len, N));
                } else if t.id != tid {
                    self.fail(out.own, format!("{} returned element {} in Err, not the pushed element {}", st.op.name(), t.id, tid));
                }
                self.check_returned(&t, out.own);
                self.adopt(t);
            }
        }
        out
    }

    // ---------------------------------------------------------------- pop / remove / swap
    fn op_pop(&mut self, st: &Step, x: usize) -> OpOut {
        let back = st.op == Op::PopBack;
        let mut out = OpOut::new(cls::RET);
        out.reloc_bound = Some(2);
        out.nontrivial = !self.models[x].is_empty();
        let b = self.bufs[x].as_mut().unwrap();
        let r = crate::elem::window(|| if back { b.pop_back() } else { b.pop_front() });
        self.allocs += crate::alloc::take_op_allocs();
        let Some(ret) = self.settle(r, false, out.own) else { return out };
        let m = &mut self.models[x];
        let want = if back { m.pop_back() } else { m.pop_front() }.map(|e| e.0);
        let got = ret.as_ref().map(|t| t.id);
        let _ = write!(self.trace.line(), " r={:?}", got);
        if got != want {
            self.fail(out.own, format!("{} returned {:?}, model says {:?}", st.op.name(), got, want));
        }
        if let Some(t) = ret {
            // the moved-out element's bit copy stays behind in the slot that just became free
            self.stats.probe(Probe::StaleCopyPresent);
            self.check_returned(&t, out.own);
            self.adopt(t);
        }
        out
    }

    fn op_remove(&mut self, st: &Step, x: usize) -> OpOut {
        let mut out = OpOut::new(cls::RET);
        let len = self.models[x].len();
        let i = st.a;
        out.argclass = idclass(i, len);
        out.nontrivial = i < len;
        out.reloc_bound = Some(match st.op {
            Op::Remove => len.saturating_sub(i),
            _ => 2,
        });
        if st.op == Op::Remove && i < len {
            let (start, _) = self.bufs[x].as_ref().unwrap().verif_layout();
            if N > 0 && start + len > N && start + i < N {
                self.stats.probe(Probe::RemoveWrapped);
            }
        }
        let op = st.op;
        let b = self.bufs[x].as_mut().unwrap();
        let r = crate::elem::window(|| match op {
            Op::Remove => b.remove(i),
            Op::SwapRemoveBack => b.swap_remove_back(i),
            _ => b.swap_remove_front(i),
        });
        self.allocs += crate::alloc::take_op_allocs();
        let Some(ret) = self.settle(r, false, out.own) else { return out };
        let m = &mut self.models[x];
        let want = if i < len {
            match op {
                Op::Remove => m.remove(i),
                Op::SwapRemoveBack => m.swap_remove_back(i),
                _ => m.swap_remove_front(i),
            }
        } else {
            None
        }
        .map(|e| e.0);
        let got = ret.as_ref().map(|t| t.id);
        let _ = write!(self.trace.line(), " r={:?}", got);
        if got != want {
            self.fail(out.own, format!("{}({}) returned {:?}, model says {:?}", st.op.name(), i, got, want));
        }
        if let Some(t) = ret {
            self.check_returned(&t, out.own);
            self.adopt(t);
        }
        out
    }

    fn op_swap(&mut self, st: &Step, x: usize) -> OpOut {
        let mut out = OpOut::new(cls::RET);
        out.reloc_bound = Some(2);
        let len = self.models[x].len();
        let (i, j) = (st.a, st.b);
        out.argclass = idclass(i, len) * 8 + idclass(j, len);
        let expect_panic = i >= len || j >= len;
        if expect_panic {
            self.stats.probe(Probe::SwapDocPanic);
        }
        out.nontrivial = true;
        let b = self.bufs[x].as_mut().unwrap();
        let r = crate::elem::window(|| b.swap(i, j));
        self.allocs += crate::alloc::take_op_allocs();
        if self.settle(r, expect_panic, out.own).is_some() {
            self.models[x].swap(i, j);
        }
        out
    }

    fn op_truncate(&mut self, st: &Step, x: usize) -> OpOut {
        let mut out = OpOut::new(cls::RET);
        out.reloc_bound = Some(2);
        let len = self.models[x].len();
        let n = if st.op == Op::Clear { 0 } else { st.a };
        out.argclass = idclass(n, len);
        out.nontrivial = n < len;
        let op = st.op;
        let (pstart, _) = self.bufs[x].as_ref().unwrap().verif_layout();
        let b = self.bufs[x].as_mut().unwrap();
        let r = crate::elem::window(|| match op {
            Op::TruncateBack => b.truncate_back(n),
            Op::TruncateFront => b.truncate_front(n),
            _ => b.clear(),
        });
        self.allocs += crate::alloc::take_op_allocs();
        if let (Some((FaultKind::Drop, k)), true, true) = (st.fault, N > 0 && n < len, H.with(|h| h.borrow().fired)) {
            // which physical segment did the panicking destructor's element lie in?
            let from = if op == Op::TruncateFront { pstart } else { (pstart + n) % N };
            let first_seg = N - from;
            if (len - n) > first_seg && k as usize > first_seg {
                self.stats.probe(Probe::DropPanicSecondSegment);
            }
        }
        if self.settle(r, false, out.own).is_some() {
            let m = &mut self.models[x];
            if n < len {
                match op {
                    Op::TruncateFront => {
                        m.drain(..len - n);
                    }
                    _ => m.truncate(n),
                }
            }
        }
        out
    }

    // ---------------------------------------------------------------- fill family
    /// Verifies that buffer `x` now holds `prefix` (model entries, unchanged) followed by elements
    /// that each satisfy `accept(position in the tail, item)`, then adopts the observed tail into
    /// the model.
    fn adopt_tail(&mut self, x: usize, prefix_len: usize, want_len: usize, own: u32, what: &str, accept: &mut dyn FnMut(usize, u32, u32) -> bool) {
        let items = self.items(x);
        if items.len() != want_len {
            self.fail(own | cls::CONTENTS, format!("{what}: buffer has {} elements, expected {}", items.len(), want_len));
            return;
        }
        for (i, it) in items.iter().enumerate() {
            if it.class != crate::elem::Class::Live {
                self.fail(own | cls::CONTENTS | cls::GARBAGE, format!("{what}: position {i} holds id={} which is {:?}", it.id, it.class));
                return;
            }
            if i < prefix_len {
                continue; // compared with the model by the strict contents check
            }
            if items[..i].iter().any(|o| o.id == it.id) {
                self.fail(own | cls::CONTENTS, format!("{what}: element id={} appears twice", it.id));
                return;
            }
            if !accept(i - prefix_len, it.id, it.val) {
                self.fail(own | cls::CONTENTS, format!("{what}: position {i} holds id={} val={} which is not the expected element/clone", it.id, it.val));
                return;
            }
        }
        let m = &mut self.models[x];
        m.truncate(prefix_len);
        for it in &items[prefix_len..] {
            m.push_back((it.id, it.val));
        }
    }

    fn origin_of(id: u32) -> Option<Origin> {
        H.with(|h| h.borrow().ents.get(id as usize).map(|e| e.origin))
    }

    fn op_fill(&mut self, st: &Step, x: usize) -> OpOut {
        let spare = st.op == Op::FillSpare;
        let mut out = OpOut::new(cls::RET);
        let len = self.models[x].len();
        out.argclass = idclass(len, N);
        out.nontrivial = true;
        let t = self.take_elem(st.c, st.vals.first().copied().unwrap_or(0));
        let (tid, tval) = (t.id, t.val);
        let b = self.bufs[x].as_mut().unwrap();
        let r = crate::elem::window(|| if spare { b.fill_spare(t) } else { b.fill(t) });
        self.allocs += crate::alloc::take_op_allocs();
        if self.settle(r, false, out.own).is_none() {
            return out;
        }
        let prefix = if spare { len } else { 0 };
        if !spare {
            self.models[x].clear();
        }
        let mut acc = |_pos: usize, id: u32, val: u32| -> bool { val == tval && (id == tid || Self::origin_of(id) == Some(Origin::CloneOf(tid))) };
        self.adopt_tail(x, prefix, N, out.own, st.op.name(), &mut acc);
        out
    }

    fn op_fill_with(&mut self, st: &Step, x: usize) -> OpOut {
        let spare = st.op == Op::FillSpareWith;
        let mut out = OpOut::new(cls::RET);
        let len = self.models[x].len();
        out.argclass = idclass(len, N);
        out.nontrivial = true;
        let vals: Vec<u32> = if st.vals.is_empty() { vec![0] } else { st.vals.clone() };
        let mut made: Vec<(u32, u32)> = Vec::new();
        {
            let made_ref = &mut made;
            let mut k = 0usize;
            let f = move || {
                let _s = HookScope::enter();
                user_code_tick(FaultKind::Closure);
                let t = Tracked::new(vals[k % vals.len()], Origin::Closure);
                k += 1;
                made_ref.push((t.id, t.val));
                t
            };
            let b = self.bufs[x].as_mut().unwrap();
            let r = crate::elem::window(|| if spare { b.fill_spare_with(f) } else { b.fill_with(f) });
            self.allocs += crate::alloc::take_op_allocs();
            if self.settle(r, false, out.own).is_none() {
                return out;
            }
        }
        let prefix = if spare { len } else { 0 };
        if !spare {
            self.models[x].clear();
        }
        // the tail must be an in-order subsequence of the elements the closure made
        let mut cursor = 0usize;
        let mut acc = |_pos: usize, id: u32, _val: u32| -> bool {
            while cursor < made.len() {
                cursor += 1;
                if made[cursor - 1].0 == id {
                    return true;
                }
            }
            false
        };
        self.adopt_tail(x, prefix, N, out.own, st.op.name(), &mut acc);
        out
    }

    // ---------------------------------------------------------------- extend_from_slice / extend
    fn op_extend_from_slice(&mut self, st: &Step, x: usize) -> OpOut {
        let mut out = OpOut::new(cls::RET);
        let len = self.models[x].len();
        let k = st.vals.len();
        out.argclass = lenclass(k, N - len, N);
        out.nontrivial = k > 0;
        if k > N {
            self.stats.probe(Probe::ExtendSliceLongerThanN);
        } else if k > N - len {
            self.stats.probe(Probe::ExtendSliceEvicts);
        }
        let pre_start = self.bufs[x].as_ref().unwrap().verif_layout().0;
        {
            let (start, size) = self.bufs[x].as_ref().unwrap().verif_layout();
            if N > 0 && size < N && start > 0 && start + size < N {
                self.stats.probe(Probe::FreeSpaceWrapped);
            }
        }
        let src: Vec<Tracked> = st.vals.iter().map(|v| Tracked::new(*v % 3, Origin::Harness)).collect();
        let src_ids: Vec<(u32, u32)> = src.iter().map(|t| (t.id, t.val)).collect();
        let b = self.bufs[x].as_mut().unwrap();
        let r = crate::elem::window(|| b.extend_from_slice(&src));
        self.allocs += crate::alloc::take_op_allocs();
        let ok = self.settle(r, false, out.own).is_some();
        if let (Some((FaultKind::Clone, kf)), true) = (st.fault, H.with(|h| h.borrow().fired)) {
            // did the panicking clone target the second (wrapped) free segment?
            if N > 0 && k < N {
                let size_after_evict = if k < N - len { len } else { N - k };
                let start_after = (pre_start + (len - size_after_evict)) % N;
                let end = (start_after + size_after_evict) % N;
                if end >= start_after && start_after > 0 {
                    let right = N - end;
                    if k > right && kf as usize > right {
                        self.stats.probe(Probe::ClonePanicSecondSegment);
                    }
                }
            }
        }
        drop(src);
        if !ok {
            return out;
        }
        if N == 0 {
            return out;
        }
        // keep-newest-N of (old ++ clones of src)
        let total = len + k;
        let keep_old = if total <= N { len } else { N.saturating_sub(k) };
        let m = &mut self.models[x];
        m.drain(..len - keep_old);
        let tail_from = k - (N.min(total) - keep_old);
        let mut acc = |pos: usize, id: u32, val: u32| -> bool {
            let s = src_ids[tail_from + pos];
            val == s.1 && Self::origin_of(id) == Some(Origin::CloneOf(s.0))
        };
        self.adopt_tail(x, keep_old, N.min(total), out.own, "extend_from_slice", &mut acc);
        out
    }

    fn op_extend(&mut self, st: &Step, x: usize) -> OpOut {
        let mut out = OpOut::new(cls::RET);
        let len = self.models[x].len();
        let k = st.vals.len();
        out.argclass = lenclass(k, N - len, N) * 7 + (st.b as u64 % 7);
        out.nontrivial = k > 0;
        let mode = st.b % 7;
        if mode == 3 {
            // extend(slice.iter().cloned())
            let src: Vec<Tracked> = st.vals.iter().map(|v| Tracked::new(*v % 3, Origin::Harness)).collect();
            let src_ids: Vec<(u32, u32)> = src.iter().map(|t| (t.id, t.val)).collect();
            let b = self.bufs[x].as_mut().unwrap();
            let r = crate::elem::window(|| b.extend(src.iter().cloned()));
            self.allocs += crate::alloc::take_op_allocs();
            let ok = self.settle(r, false, out.own).is_some();
            drop(src);
            if !ok || N == 0 {
                return out;
            }
            let total = len + k;
            let keep_old = if total <= N { len } else { N.saturating_sub(k) };
            self.models[x].drain(..len - keep_old);
            let tail_from = k - (N.min(total) - keep_old);
            let mut acc = |pos: usize, id: u32, val: u32| -> bool {
                let s = src_ids[tail_from + pos];
                val == s.1 && Self::origin_of(id) == Some(Origin::CloneOf(s.0))
            };
            self.adopt_tail(x, keep_old, N.min(total), out.own, "extend(cloned)", &mut acc);
            return out;
        }
        let it = SrcIter::new(&st.vals, match mode {
            4 => 3,
            5 => 4,
            6 => 5,
            m => m,
        });
        let made = it.made.clone();
        let r = if st.c % 4 == 3 {
            // the buffer as one half of a pair: `(buf, sink).extend(iter of pairs)` goes through
            // `Extend::extend_reserve` / `extend_one` (what `unzip` uses); same model
            struct Sink;
            impl Extend<()> for Sink {
                fn extend<I: IntoIterator<Item = ()>>(&mut self, i: I) {
                    i.into_iter().for_each(drop)
                }
            }
            let bx = self.bufs[x].take().unwrap();
            let mut pair = (*bx, Sink);
            let pr = &mut pair;
            let r = crate::elem::window(move || pr.extend(it.map(|t| (t, ()))));
            self.bufs[x] = Some(Box::new(pair.0));
            r
        } else {
            let b = self.bufs[x].as_mut().unwrap();
            crate::elem::window(|| b.extend(it))
        };
        self.allocs += crate::alloc::take_op_allocs();
        if self.settle(r, false, out.own).is_none() {
            return out;
        }
        let made = made.borrow().clone();
        if made.len() != k {
            self.fail(out.own, format!("extend pulled {} items from an iterator of {}", made.len(), k));
            return out;
        }
        if N == 0 {
            return out;
        }
        let m = &mut self.models[x];
        for e in made {
            if m.len() == N {
                m.pop_front();
            }
            m.push_back(e);
        }
        out
    }

    // ---------------------------------------------------------------- constructors
    pub fn op_new(&mut self, st: &Step, x: usize) -> OpOut {
        let mut out = OpOut::new(cls::CTOR);
        out.may_alloc = true;
        out.nontrivial = true;
        out.argclass = st.b as u64 % 3;
        // drop the old buffer: `Drop for CircularBuffer` is crate code
        let old = self.bufs[x].take().unwrap();
        let r = self.win(move || drop(old));
        self.bufs[x] = Some(new_buf::<N>(0, false));
        let ok = self.settle(r, false, cls::LEDGER).is_some();
        self.models[x].clear();
        if !ok {
            // the old buffer is gone whatever happened; the replacement is empty
            return out;
        }
        let kind = st.b % 3;
        let r = self.win(|| new_buf::<N>(kind, false));
        if let Some(nb) = self.settle(r, false, out.own) {
            self.bufs[x] = Some(nb);
        }
        out
    }
}

/// Harness-owned iterator handed to `extend` / `from_iter` (seam S2). Creates its elements
/// lazily in `next` (under the hook scope), may lie in `size_hint`, may carry an `IterPanic`.
pub struct SrcIter {
    vals: Vec<u32>,
    pos: usize,
    mode: usize,
    pub made: std::rc::Rc<std::cell::RefCell<Vec<(u32, u32)>>>,
    /// mode 3 (not fused): after its first `None` the iterator yields two more items. Consumers
    /// must stop at the first `None`; `made` only records what was yielded before it.
    after_none: usize,
}

impl SrcIter {
    pub fn new(vals: &[u32], mode: usize) -> SrcIter {
        SrcIter { vals: vals.to_vec(), pos: 0, mode, made: Default::default(), after_none: 0 }
    }
}

impl Iterator for SrcIter {
    type Item = Tracked;
    fn next(&mut self) -> Option<Tracked> {
        let _s = HookScope::enter();
        user_code_tick(FaultKind::Iter);
        if self.pos >= self.vals.len() {
            if self.mode == 3 {
                self.after_none += 1;
                if self.after_none == 2 || self.after_none == 3 {
                    // not fused: an item after the end (never part of the sequence)
                    return Some(Tracked::new(2, Origin::IterSrc));
                }
            }
            return None;
        }
        let t = Tracked::new(self.vals[self.pos] % 3, Origin::IterSrc);
        self.pos += 1;
        self.made.borrow_mut().push((t.id, t.val));
        Some(t)
    }
    fn size_hint(&self) -> (usize, Option<usize>) {
        let rem = self.vals.len() - self.pos;
        match self.mode {
            1 | 3 => (0, None),
            2 => (rem + 5, Some(rem + 5)),
            4 => (0, Some(usize::MAX)),
            // "exact" but too small: more items follow than the hint admits
            5 => (rem / 2, Some(rem / 2)),
            _ => (rem, Some(rem)),
        }
    }
}
