//! The `deque` scenario executor: two buffers `A`, `B` of `CircularBuffer<N, Tracked>`, the
//! harness hand, a `VecDeque` reference model per buffer, the ledger (in `elem`), and all the
//! oracles of DESIGN §2.7. Generic over the compiled capacity `N`.

use crate::elem::{window, Class, FaultKind, Origin, PanicKind, Tracked, Viol, H};
use crate::exec::{cls, Failure, Outcome, Probe, RunStats, Trace};
use crate::rng::Rng;
use crate::script::{Garbage, Op, Script, Step};
use circular_buffer::CircularBuffer;
use std::collections::VecDeque;
use std::fmt::Write as _;

pub type Buf<const N: usize> = CircularBuffer<N, Tracked>;
pub type Model = VecDeque<(u32, u32)>;

#[derive(Clone, Copy, Debug)]
pub struct Item {
    pub id: u32,
    pub val: u32,
    pub class: Class,
    pub addr: usize,
}

pub fn item_of(t: &Tracked) -> Item {
    let class = H.with(|h| h.borrow().classify(t));
    Item { id: t.id, val: t.val, class, addr: t as *const Tracked as usize }
}

/// What the per-op code hands to the common post-step logic.
pub struct OpOut {
    /// classes that own this step (a contents mismatch or unexpected panic is reported to them)
    pub own: u32,
    /// bound on relocated survivors in buffer `x`, if the property states one for this op
    pub reloc_bound: Option<usize>,
    /// this op may legitimately allocate (boxed, to_vec)
    pub may_alloc: bool,
    /// ids the model says the crate destroys during this step's windows (None: not asserted
    /// exactly, only conservation)
    pub destroyed: Option<Vec<u32>>,
    /// non-trivial for coverage accounting
    pub nontrivial: bool,
    pub argclass: u64,
}

impl OpOut {
    pub fn new(own: u32) -> OpOut {
        OpOut { own, reloc_bound: None, may_alloc: false, destroyed: Some(Vec::new()), nontrivial: false, argclass: 0 }
    }
}

pub struct Ex<const N: usize> {
    pub bufs: [Option<Box<Buf<N>>>; 2],
    pub models: [Model; 2],
    pub hand: Vec<Tracked>,
    pub trace: Trace,
    pub fail: Option<Failure>,
    pub stats: RunStats,
    pub garbage: Garbage,
    pub grng: Rng,
    pub boxed: bool,
    pub cur: usize,
    pub cur_op: Op,
    /// a fault (injected panic or forget) happened in this step: relaxed validation + resync
    pub faulted: Option<FaultFamily>,
    /// ids moved into the crate by value during this step
    pub moved_in: Vec<u32>,
    pub allocs: u32,
    pub window_panicked: bool,
    /// a call returned normally although its documented panic condition held (this step)
    pub spec_returned: bool,
    /// ids of destroyed elements, for the stale-dead garbage pattern
    pub dead_pool: Vec<[u8; 16]>,
    pub run_family: Option<FaultFamily>,
}

#[derive(Clone, Copy, PartialEq, Eq, Debug)]
pub enum FaultFamily {
    Drop,
    User,
    Forget,
}

pub fn new_buf<const N: usize>(kind: usize, boxed_default: bool) -> Box<Buf<N>> {
    match kind {
        1 => Box::new(<Buf<N> as Default>::default()),
        #[cfg(feature = "alloc")]
        2 => Buf::<N>::boxed(),
        _ => {
            #[cfg(feature = "alloc")]
            if boxed_default {
                return Buf::<N>::boxed();
            }
            let _ = boxed_default;
            Box::new(Buf::<N>::new())
        }
    }
}

impl<const N: usize> Ex<N> {
    pub fn new(script: &Script, keep_trace: bool) -> Ex<N> {
        Ex {
            bufs: [Some(new_buf::<N>(0, script.boxed)), Some(new_buf::<N>(0, script.boxed))],
            models: [Model::new(), Model::new()],
            hand: Vec::new(),
            trace: Trace::new(keep_trace),
            fail: None,
            stats: RunStats::new(),
            garbage: script.garbage,
            grng: Rng::new(script.garbage_seed ^ 0x6a09e667f3bcc908),
            boxed: script.boxed,
            cur: 0,
            cur_op: Op::New,
            faulted: None,
            moved_in: Vec::new(),
            allocs: 0,
            window_panicked: false,
            spec_returned: false,
            dead_pool: Vec::new(),
            run_family: None,
        }
    }

    #[inline]
    pub fn fail(&mut self, classes: u32, msg: String) {
        if self.fail.is_none() {
            // element hooks may have recorded that a non-live element was touched in this very
            // step (e.g. a stale copy formatted or dropped): that is part of the same failure
            let extra = self.pending_hook_classes();
            self.fail = Some(Failure { step: self.cur, classes: classes | extra, op: self.cur_op, msg });
        }
    }

    /// Class of the fault family that is (or was, earlier in this run) injected; 0 if none.
    pub fn family_class(&self) -> u32 {
        match self.faulted.or(self.run_family) {
            Some(FaultFamily::Drop) => cls::DROP_FAULT,
            Some(FaultFamily::User) => cls::USER_FAULT,
            Some(FaultFamily::Forget) => cls::FORGET,
            None => 0,
        }
    }

    fn pending_hook_classes(&self) -> u32 {
        let v: Vec<Viol> = H.with(|h| h.try_borrow().map(|h| h.viol.iter().map(|x| x.0).collect()).unwrap_or_default());
        let fam = self.faulted.or(self.run_family);
        let famcls = match fam {
            Some(FaultFamily::Drop) => cls::DROP_FAULT,
            Some(FaultFamily::User) => cls::USER_FAULT,
            Some(FaultFamily::Forget) => cls::FORGET,
            None => cls::LEDGER,
        };
        let mut c = 0;
        for viol in v {
            c |= match viol {
                Viol::GarbageTouched => cls::GARBAGE,
                Viol::DeadTouched | Viol::StaleDropped | Viol::LeakedTouched => cls::GARBAGE | famcls,
                Viol::DoubleDrop => cls::GARBAGE | famcls,
            };
        }
        c
    }

    /// Takes an element to give to the crate: from the hand (c > 0) or freshly created.
    pub fn take_elem(&mut self, c: usize, val: u32) -> Tracked {
        let t = if c > 0 && !self.hand.is_empty() {
            let i = (c - 1) % self.hand.len();
            self.hand.swap_remove(i)
        } else {
            Tracked::new(val % 3, Origin::Harness)
        };
        self.moved_in.push(t.id);
        t
    }

    /// The harness receives an element from the crate.
    pub fn adopt(&mut self, mut t: Tracked) {
        t.bump_gen();
        self.hand.push(t);
    }

    /// Runs one crate call as an operation window, accounting allocations.
    #[inline]
    pub fn win<R>(&mut self, f: impl FnOnce() -> R) -> Result<R, PanicKind> {
        let r = window(f);
        self.allocs += crate::alloc::take_op_allocs();
        r
    }

    /// Common treatment of a window result. Returns Some(value) when the call returned normally
    /// and was expected to; None when the step is over (documented panic, injected fault, or a
    /// failure has been recorded).
    pub fn settle<R>(&mut self, r: Result<R, PanicKind>, expect_panic: bool, own: u32) -> Option<R> {
        match r {
            Ok(v) => {
                if expect_panic {
                    // drop what was returned (a drain / iterator over a range that should have
                    // been rejected) first: what its destructor does to element ownership is
                    // part of the same failure (fail() merges the hook violations)
                    let r = window(move || drop(v));
                    let also = if r.is_err() { " [dropping the returned value panicked]" } else { "" };
                    self.spec_returned = true;
                    self.fail(cls::PANIC_SPEC | own, format!("call returned normally although the documented panic condition holds{also}"));
                    None
                } else {
                    Some(v)
                }
            }
            Err(PanicKind::Injected(k)) => {
                self.window_panicked = true;
                self.stats.fault_fired[k as usize] += 1;
                self.faulted = Some(if k == FaultKind::Drop { FaultFamily::Drop } else { FaultFamily::User });
                if k != FaultKind::Drop {
                    self.stats.probe(Probe::UserPanicFired);
                }
                None
            }
            Err(PanicKind::Other(m)) => {
                self.window_panicked = true;
                if expect_panic {
                    self.stats.doc_panics += 1;
                } else {
                    // after an earlier fault in this run the property of that fault family also
                    // says "the buffer behaves normally afterwards"
                    let fam = self.family_class();
                    self.fail(cls::PANIC_SPEC | own | fam, format!("unexpected panic: {m}"));
                }
                None
            }
        }
    }

    /// Reads buffer `x` through `iter()` without element hooks.
    pub fn items(&self, x: usize) -> Vec<Item> {
        let b = self.bufs[x].as_ref().unwrap();
        b.iter().map(item_of).collect()
    }

    pub fn addr_snapshot(&self, x: usize) -> Vec<(u32, usize)> {
        let b = self.bufs[x].as_ref().unwrap();
        let mut v = Vec::with_capacity(b.len());
        for i in 0..b.len() {
            if let Some(t) = b.get(i) {
                v.push((t.id, t as *const Tracked as usize));
            }
        }
        v
    }

    /// VIEW oracle (shared accessors): every read accessor presents the model sequence.
    /// Returns the observed items (via `iter()`).
    pub fn check_views(&mut self, x: usize) -> Vec<Item> {
        let items = self.items(x);
        let mut err: Option<String> = None;
        {
            let b = self.bufs[x].as_ref().unwrap();
            let len = b.len();
            let mut e = |s: String| {
                if err.is_none() {
                    err = Some(s);
                }
            };
            if items.len() != len {
                e(format!("iter() yields {} items but len() = {}", items.len(), len));
            }
            if b.iter().len() != len {
                e(format!("iter().len() = {} but len() = {}", b.iter().len(), len));
            }
            if b.is_empty() != (len == 0) {
                e(format!("is_empty() = {} with len() = {}", b.is_empty(), len));
            }
            if b.is_full() != (len == N) {
                e(format!("is_full() = {} with len() = {} N = {}", b.is_full(), len, N));
            }
            if b.capacity() != N {
                e(format!("capacity() = {}", b.capacity()));
            }
            let n = items.len().min(len);
            for i in 0..n {
                let want = items[i].addr;
                let g = b.get(i).map(|t| t as *const Tracked as usize);
                if g != Some(want) {
                    e(format!("get({i}) disagrees with iter()"));
                }
                let g = b.nth_front(i).map(|t| t as *const Tracked as usize);
                if g != Some(want) {
                    e(format!("nth_front({i}) disagrees with iter()"));
                }
                let g = b.nth_back(n - 1 - i).map(|t| t as *const Tracked as usize);
                if g != Some(want) {
                    e(format!("nth_back({}) disagrees with iter()", n - 1 - i));
                }
                let g = &b[i] as *const Tracked as usize;
                if g != want {
                    e(format!("index [{i}] disagrees with iter()"));
                }
            }
            for i in [len, len.wrapping_add(1), usize::MAX, usize::MAX - 1] {
                if i < len {
                    continue;
                }
                if b.get(i).is_some() {
                    e(format!("get({i}) is Some beyond len {len}"));
                }
                if b.nth_front(i).is_some() {
                    e(format!("nth_front({i}) is Some beyond len {len}"));
                }
                if b.nth_back(i).is_some() {
                    e(format!("nth_back({i}) is Some beyond len {len}"));
                }
            }
            let f = b.front().map(|t| t as *const Tracked as usize);
            let k = b.back().map(|t| t as *const Tracked as usize);
            if f != items.first().map(|i| i.addr) {
                e("front() disagrees with iter()".into());
            }
            if k != items.last().map(|i| i.addr) {
                e("back() disagrees with iter()".into());
            }
            let (s0, s1) = b.as_slices();
            let cat: Vec<usize> = s0.iter().chain(s1.iter()).map(|t| t as *const Tracked as usize).collect();
            if cat.len() != items.len() || cat.iter().zip(items.iter()).any(|(a, b)| *a != b.addr) {
                e(format!("as_slices() concatenation ({}+{}) disagrees with iter()", s0.len(), s1.len()));
            }
            if len > 0 && s0.is_empty() {
                e("as_slices() first slice empty on a non-empty buffer".into());
            }
            if s0.len() > 0 && s1.len() > 0 {
                // statistics only
            }
            let r: Vec<usize> = b.range(..).map(|t| t as *const Tracked as usize).collect();
            if r.len() != items.len() || r.iter().zip(items.iter()).any(|(a, b)| *a != b.addr) {
                e("range(..) disagrees with iter()".into());
            }
            // one sub-range per step, chosen from the step index (no PRNG draw)
            if len > 0 {
                let a = (self.cur * 7 + 3) % (len + 1);
                let c = a + (self.cur * 5 + 1) % (len - a + 1);
                let r: Vec<usize> = b.range(a..c).map(|t| t as *const Tracked as usize).collect();
                if r.len() != c - a || r.iter().zip(items[a.min(items.len())..].iter()).any(|(p, q)| *p != q.addr) || b.range(a..c).len() != c - a {
                    e(format!("range({a}..{c}) disagrees with iter() (yields {} items)", r.len()));
                }
            }
            let r: Vec<usize> = (&**b).into_iter().map(|t| t as *const Tracked as usize).collect();
            if r.len() != items.len() {
                e("(&buf).into_iter() disagrees with iter()".into());
            }
            // pairwise distinct addresses
            if items.len() <= 16 {
                for i in 0..items.len() {
                    for j in 0..i {
                        if items[i].addr == items[j].addr {
                            e(format!("positions {j} and {i} have the same address"));
                        }
                    }
                }
            } else {
                let mut a: Vec<usize> = items.iter().map(|i| i.addr).collect();
                a.sort_unstable();
                if a.windows(2).any(|w| w[0] == w[1]) {
                    e("two positions have the same address".into());
                }
            }
        }
        if let Some(m) = err {
            self.fail(cls::VIEW, m);
        }
        items
    }

    /// VIEW oracle (mutable accessors): they address the same elements as the shared ones.
    pub fn check_mut_views(&mut self, x: usize, items: &[Item]) {
        let mut err: Option<String> = None;
        {
            let b = self.bufs[x].as_mut().unwrap();
            let len = items.len();
            let mut e = |s: String| {
                if err.is_none() {
                    err = Some(s);
                }
            };
            for i in 0..len {
                let want = items[i].addr;
                if b.get_mut(i).map(|t| t as *mut Tracked as usize) != Some(want) {
                    e(format!("get_mut({i}) address differs from get({i})"));
                }
                if b.nth_front_mut(i).map(|t| t as *mut Tracked as usize) != Some(want) {
                    e(format!("nth_front_mut({i}) address differs"));
                }
                if b.nth_back_mut(len - 1 - i).map(|t| t as *mut Tracked as usize) != Some(want) {
                    e(format!("nth_back_mut({}) address differs", len - 1 - i));
                }
                if (&mut b[i]) as *mut Tracked as usize != want {
                    e(format!("index_mut [{i}] address differs"));
                }
            }
            for i in [len, len.wrapping_add(1), usize::MAX] {
                if i < len {
                    continue;
                }
                if b.get_mut(i).is_some() || b.nth_front_mut(i).is_some() || b.nth_back_mut(i).is_some() {
                    e(format!("mutable accessor returns Some at {i} beyond len {len}"));
                }
            }
            if b.front_mut().map(|t| t as *mut Tracked as usize) != items.first().map(|i| i.addr) {
                e("front_mut() address differs".into());
            }
            if b.back_mut().map(|t| t as *mut Tracked as usize) != items.last().map(|i| i.addr) {
                e("back_mut() address differs".into());
            }
            {
                let (s0, s1) = b.as_mut_slices();
                let cat: Vec<usize> = s0.iter_mut().chain(s1.iter_mut()).map(|t| t as *mut Tracked as usize).collect();
                if cat.len() != len || cat.iter().zip(items.iter()).any(|(a, b)| *a != b.addr) {
                    e("as_mut_slices() addresses differ from as_slices()".into());
                }
            }
            {
                let v: Vec<usize> = b.iter_mut().map(|t| t as *mut Tracked as usize).collect();
                if v.len() != len || v.iter().zip(items.iter()).any(|(a, b)| *a != b.addr) {
                    e("iter_mut() addresses differ from iter()".into());
                }
                let v: Vec<usize> = b.range_mut(..).map(|t| t as *mut Tracked as usize).collect();
                if v.len() != len || v.iter().zip(items.iter()).any(|(a, b)| *a != b.addr) {
                    e("range_mut(..) addresses differ from iter()".into());
                }
            }
        }
        if let Some(m) = err {
            self.fail(cls::VIEW, m);
        }
    }

    /// Strict comparison of observed items with the model of buffer `x`.
    pub fn check_contents(&mut self, x: usize, items: &[Item], own: u32) {
        let m = &self.models[x];
        let mut msg: Option<(u32, String)> = None;
        for it in items {
            if it.class != Class::Live {
                // a destroyed element, or a stale copy of an element that moved elsewhere, is still
                // reachable through the buffer: "in exactly one place" (C03) is broken as well
                let led = if matches!(it.class, Class::Dead | Class::Stale) { cls::LEDGER } else { 0 };
                msg = Some((
                    cls::GARBAGE | cls::CONTENTS | own | led,
                    format!("buffer {} presents a slot that holds no live element (id={} class={:?})", x, it.id, it.class),
                ));
                break;
            }
            if self.hand.iter().any(|h| h.id == it.id) {
                msg = Some((
                    cls::LEDGER | cls::CONTENTS | own,
                    format!("element id={} is in buffer {} although it was handed to the caller (reachable from two places)", it.id, x),
                ));
                break;
            }
        }
        if msg.is_none() {
            let obs: Vec<(u32, u32)> = items.iter().map(|i| (i.id, i.val)).collect();
            let want: Vec<(u32, u32)> = m.iter().copied().collect();
            if obs != want {
                msg = Some((cls::CONTENTS | own, format!("buffer {x} contents (id,val) {obs:?} != model {want:?}")));
            }
        }
        if let Some((c, m)) = msg {
            self.fail(c, m);
        }
    }

    /// Relaxed validity after a fault: live, distinct, not in the hand nor in the other buffer,
    /// drawn from (pre-step contents ∪ created in this step ∪ moved in).
    pub fn check_valid_relaxed(&mut self, x: usize, items: &[Item], fam: FaultFamily) {
        let famcls = match fam {
            FaultFamily::Drop => cls::DROP_FAULT,
            FaultFamily::User => cls::USER_FAULT,
            FaultFamily::Forget => cls::FORGET,
        };
        let created: Vec<u32> = H.with(|h| h.borrow().step_created.clone());
        let mut msg: Option<String> = None;
        let mut extra = 0;
        for (i, it) in items.iter().enumerate() {
            if it.class != Class::Live {
                // storage whose element is gone (or never existed) is presented as occupied (C04)
                extra = cls::GARBAGE;
                msg = Some(format!("after the fault, buffer {x} position {i} holds id={} which is {:?}, not a live element", it.id, it.class));
                break;
            }
            if items[..i].iter().any(|o| o.id == it.id) {
                msg = Some(format!("after the fault, buffer {x} holds id={} twice", it.id));
                break;
            }
            if self.hand.iter().any(|h| h.id == it.id) {
                msg = Some(format!("after the fault, buffer {x} holds id={} which was already handed to the caller", it.id));
                break;
            }
            if self.models[1 - x].iter().any(|(id, _)| *id == it.id) {
                msg = Some(format!("after the fault, buffer {x} holds id={} which belongs to the other buffer", it.id));
                break;
            }
            let known = self.models[x].iter().any(|(id, _)| *id == it.id) || created.contains(&it.id) || self.moved_in.contains(&it.id);
            if !known {
                msg = Some(format!("after the fault, buffer {x} holds id={} which is not from its previous contents", it.id));
                break;
            }
        }
        if let Some(m) = msg {
            self.fail(famcls | extra, m);
        }
    }

    /// Conservation: the set of live ids equals model contents ⊎ hand.
    pub fn check_conservation(&mut self, fam: Option<FaultFamily>, own: u32) {
        // constructors/conversions (C12) and drain (C09) state 'destroyed exactly once' themselves
        let own = own & (cls::CTOR | cls::DRAIN);
        let expected = self.models[0].len() + self.models[1].len() + self.hand.len();
        let live = H.with(|h| h.borrow().live);
        if live == expected {
            return;
        }
        // find the culprits
        let mut owned: Vec<u32> = self.models[0].iter().map(|e| e.0).chain(self.models[1].iter().map(|e| e.0)).collect();
        owned.extend(self.hand.iter().map(|t| t.id));
        let (lost, dead_owned): (Vec<u32>, Vec<u32>) = H.with(|h| {
            let h = h.borrow();
            let mut lost = Vec::new();
            for (id, e) in h.ents.iter().enumerate().skip(1) {
                if e.drops == 0 && !e.leaked && !owned.contains(&(id as u32)) {
                    lost.push(id as u32);
                }
            }
            let dead: Vec<u32> = owned.iter().copied().filter(|id| h.ents[*id as usize].drops > 0 || h.ents[*id as usize].leaked).collect();
            (lost, dead)
        });
        if !dead_owned.is_empty() {
            let c = match fam {
                None => cls::LEDGER | own,
                Some(FaultFamily::Drop) => cls::DROP_FAULT,
                Some(FaultFamily::User) => cls::USER_FAULT,
                Some(FaultFamily::Forget) => cls::FORGET,
            };
            self.fail(c, format!("elements {dead_owned:?} are destroyed although still reachable (in a buffer or in the caller's hand)"));
            return;
        }
        if !lost.is_empty() {
            match fam {
                Some(FaultFamily::Drop) | Some(FaultFamily::Forget) => {
                    // leaks are allowed by C05 / C10: mark and move on
                    H.with(|h| {
                        let mut h = h.borrow_mut();
                        for id in &lost {
                            h.ents[*id as usize].leaked = true;
                            h.live -= 1;
                        }
                    });
                }
                Some(FaultFamily::User) => {
                    self.fail(cls::USER_FAULT, format!("elements {lost:?} were created but are neither in a buffer nor destroyed after the panic (leaked)"));
                }
                None => {
                    self.fail(cls::LEDGER | own, format!("elements {lost:?} are neither in a buffer, nor with the caller, nor destroyed (leaked)"));
                }
            }
        }
    }

    /// Turns hook-recorded violations into a failure.
    pub fn check_hook_violations(&mut self, own: u32) {
        let v: Vec<(Viol, u32, &'static str)> = H.with(|h| std::mem::take(&mut h.borrow_mut().viol));
        if v.is_empty() {
            return;
        }
        let fam = self.faulted.or_else(|| self.step_family());
        let famcls = match fam {
            Some(FaultFamily::Drop) => cls::DROP_FAULT,
            Some(FaultFamily::User) => cls::USER_FAULT,
            Some(FaultFamily::Forget) => cls::FORGET,
            None => 0,
        };
        let (viol, id, what) = v[0];
        let c = match viol {
            Viol::GarbageTouched => cls::GARBAGE,
            Viol::DeadTouched => cls::GARBAGE | if famcls != 0 { famcls } else { cls::LEDGER },
            Viol::StaleDropped => cls::GARBAGE | if famcls != 0 { famcls } else { cls::LEDGER },
            // a second destructor run destroys a slot that holds no live element any more (C04)
            Viol::DoubleDrop => cls::GARBAGE | if famcls != 0 { famcls } else { cls::LEDGER },
            Viol::LeakedTouched => cls::GARBAGE | famcls,
        };
        // drain and constructor steps state "destroyed exactly once" themselves (C09, C12)
        let c = c | (own & (cls::DRAIN | cls::CTOR));
        self.fail(c, format!("{viol:?} on element id={id} in `{what}` ({} hook violation(s) this step)", v.len()));
    }

    /// The fault family of the whole run so far (a fault earlier in the run keeps its family for
    /// attributing late consequences such as a double drop at the final drop; it relaxes nothing).
    pub fn step_family(&self) -> Option<FaultFamily> {
        self.run_family
    }
}
