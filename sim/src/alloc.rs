//! Seam S5: the global allocator belongs to the simulator. It counts allocations made while an
//! operation window is open and no harness-owned code (element hook, closure, iterator, writer)
//! is running, and it fills every fresh allocation with a chosen byte so that `boxed()` never
//! starts from accidentally-zero memory.

use std::alloc::{GlobalAlloc, Layout, System};
use std::cell::Cell;

thread_local! {
    static IN_OP: Cell<bool> = const { Cell::new(false) };
    static OP_ALLOCS: Cell<u32> = const { Cell::new(0) };
    static FRESH_BYTE: Cell<u8> = const { Cell::new(0xA7) };
    static FRESH_ON: Cell<bool> = const { Cell::new(false) };
}

pub struct SimAlloc;

unsafe impl GlobalAlloc for SimAlloc {
    unsafe fn alloc(&self, layout: Layout) -> *mut u8 {
        let p = System.alloc(layout);
        let _ = IN_OP.try_with(|f| {
            if f.get() && crate::elem::HOOK_DEPTH.try_with(|d| d.get()).unwrap_or(1) == 0 {
                let _ = OP_ALLOCS.try_with(|c| c.set(c.get() + 1));
            }
        });
        if !p.is_null() && layout.size() <= 4096 {
            if FRESH_ON.try_with(|f| f.get()).unwrap_or(false) {
                let b = FRESH_BYTE.try_with(|b| b.get()).unwrap_or(0xA7);
                std::ptr::write_bytes(p, b, layout.size());
            }
        }
        p
    }
    unsafe fn dealloc(&self, ptr: *mut u8, layout: Layout) {
        System.dealloc(ptr, layout)
    }
    unsafe fn alloc_zeroed(&self, layout: Layout) -> *mut u8 {
        let p = System.alloc_zeroed(layout);
        let _ = IN_OP.try_with(|f| {
            if f.get() && crate::elem::HOOK_DEPTH.try_with(|d| d.get()).unwrap_or(1) == 0 {
                let _ = OP_ALLOCS.try_with(|c| c.set(c.get() + 1));
            }
        });
        p
    }
    unsafe fn realloc(&self, ptr: *mut u8, layout: Layout, new_size: usize) -> *mut u8 {
        let _ = IN_OP.try_with(|f| {
            if f.get() && crate::elem::HOOK_DEPTH.try_with(|d| d.get()).unwrap_or(1) == 0 {
                let _ = OP_ALLOCS.try_with(|c| c.set(c.get() + 1));
            }
        });
        System.realloc(ptr, layout, new_size)
    }
}

#[inline]
pub fn op_begin() {
    IN_OP.with(|f| f.set(true));
}
#[inline]
pub fn op_end() {
    IN_OP.with(|f| f.set(false));
}
/// Number of allocations attributed to crate code since the last call; resets the counter.
#[inline]
pub fn take_op_allocs() -> u32 {
    OP_ALLOCS.with(|c| c.replace(0))
}
pub fn set_fresh(on: bool, byte: u8) {
    FRESH_ON.with(|f| f.set(on));
    FRESH_BYTE.with(|b| b.set(byte));
}
