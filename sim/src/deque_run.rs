//! Step driver of the deque scenario: per-step bookkeeping, post-step oracles, garbage
//! injection into unoccupied slots, final drop.

use crate::deque::{new_buf, Ex, FaultFamily, Item, OpOut};
use crate::elem::{chk, Class, Tracked, H, NKINDS};
use crate::exec::{cls, Outcome, Probe};
use crate::script::{Garbage, Op, Script, Step};
use std::fmt::Write as _;

pub fn run_deque<const N: usize>(script: &Script, keep_trace: bool) -> Outcome {
    H.with(|h| h.borrow_mut().reset());
    crate::alloc::set_fresh(true, (script.garbage_seed as u8) | 1);
    let _ = crate::alloc::take_op_allocs();
    let mut ex = Ex::<N>::new(script, keep_trace);
    ex.poison();
    for (i, st) in script.steps.iter().enumerate() {
        // crate accessors called by the observers run outside operation windows: a panic there
        // (overflow check, debug assertion, bounds) is a violation, not a harness crash
        let r = std::panic::catch_unwind(std::panic::AssertUnwindSafe(|| ex.step(i, st)));
        if r.is_err() {
            let (c, m) = crate::exec::classify_stray_panic(cls::VIEW | cls::PANIC_SPEC);
            ex.fail(c, m);
        }
        if ex.fail.is_some() {
            break;
        }
    }
    if ex.fail.is_none() {
        let n = script.steps.len();
        let r = std::panic::catch_unwind(std::panic::AssertUnwindSafe(|| ex.final_drop(n)));
        if r.is_err() {
            let (c, m) = crate::exec::classify_stray_panic(cls::LEDGER | cls::PANIC_SPEC);
            ex.fail(c, m);
        }
    }
    if ex.fail.is_some() {
        ex.abandon();
    }
    crate::alloc::set_fresh(false, 0);
    let digest = ex.trace.fnv.0;
    Outcome { digest, failure: ex.fail.take(), stats: std::mem::replace(&mut ex.stats, crate::exec::RunStats::new()), trace: ex.trace.text.take() }
}

impl<const N: usize> Ex<N> {
    pub fn step(&mut self, i: usize, st: &Step) {
        self.cur = i;
        self.cur_op = st.op;
        self.faulted = None;
        self.moved_in.clear();
        self.allocs = 0;
        self.window_panicked = false;
        self.spec_returned = false;
        self.stats.steps += 1;
        if let Some((k, _)) = st.fault {
            self.stats.fault_configured[k as usize] += 1;
        }
        H.with(|h| h.borrow_mut().begin_step(i as u32, st.fault));
        let x = (st.buf & 1) as usize;
        let pre_layout = self.bufs[x].as_ref().unwrap().verif_layout();
        let pre_len = self.models[x].len();
        let pre_addr = self.addr_snapshot(x);
        let _ = write!(self.trace.line(), "{} {} x={}", i, st.op.name(), x);
        if N == 0 {
            self.stats.probe(Probe::ZeroCapOp);
        }

        let out = self.dispatch(st, x);

        H.with(|h| h.borrow_mut().plan = None);
        self.post_step(st, x, out, pre_addr, pre_layout, pre_len);
    }

    fn post_step(&mut self, st: &Step, x: usize, out: OpOut, pre_addr: Vec<(u32, usize)>, pre_layout: (usize, usize), pre_len: usize) {
        if let Some(f) = self.faulted {
            self.run_family = Some(f);
        }
        if let Some((crate::elem::FaultKind::Drop, _)) = st.fault {
            if !H.with(|h| h.borrow().fired) {
                // k was beyond the last destructor call of the operation: must not fire
                self.stats.probe(Probe::DropPanicNotFired);
            }
        }
        let failed_in_op = self.fail.is_some();
        self.check_hook_violations(out.own);
        if self.fail.is_none() {
            // representation sanity (the crate's own debug assertions): every accessor relies on it
            for b in 0..2 {
                if let Some(buf) = self.bufs[b].as_ref() {
                    let (start, size) = buf.verif_layout();
                    if size > N || (N > 0 && start >= N) {
                        let fam = self.family_class();
                        self.fail(cls::CONTENTS | out.own | fam, format!("buffer {b} is corrupt: front position {start}, length {size}, capacity {N}"));
                        break;
                    }
                }
            }
        }
        let mut all_items: [Vec<Item>; 2] = [Vec::new(), Vec::new()];
        let mut observed = [false; 2];
        for b in 0..2 {
            if self.fail.is_some() {
                break;
            }
            let items = self.check_views(b);
            if self.fail.is_none() {
                if let Some(fam) = self.faulted {
                    self.check_valid_relaxed(b, &items, fam);
                    if self.fail.is_none() {
                        // resynchronise the model to what survived the fault
                        self.models[b] = items.iter().map(|i| (i.id, i.val)).collect();
                    }
                } else {
                    let mut own = if b == x { out.own } else { 0 };
                    if self.window_panicked {
                        // a documented panic must leave the buffer unchanged (C11)
                        own |= cls::PANIC_SPEC;
                    }
                    self.check_contents(b, &items, own);
                }
            }
            if self.fail.is_none() {
                self.check_mut_views(b, &items);
            }
            all_items[b] = items;
            observed[b] = true;
        }
        let _ = &observed;
        if self.fail.is_some() && (!failed_in_op || self.spec_returned) {
            // complete the observation (read-only) so that the failure can be diagnosed
            for b in 0..2 {
                if !observed[b] && self.bufs[b].is_some() {
                    all_items[b] = self.items(b);
                    observed[b] = true;
                }
            }
        }
        if self.fail.is_none() {
            self.check_hook_violations(out.own);
        }
        if self.fail.is_none() {
            self.check_conservation(self.faulted, out.own);
        } else if self.faulted.is_none() && (!failed_in_op || self.spec_returned) && observed[0] && observed[1] {
            // the step already failed (typically: contents differ from the model). If elements
            // have also vanished — alive, but neither in a buffer as observed nor with the caller —
            // the same failure is an ownership failure too (C03).
            let mut owned: Vec<u32> = all_items[0].iter().chain(all_items[1].iter()).map(|i| i.id).collect();
            owned.extend(self.hand.iter().map(|t| t.id));
            owned.sort_unstable();
            let dup: Vec<u32> = owned.windows(2).filter(|w| w[0] == w[1]).map(|w| w[0]).collect();
            let lost: Vec<u32> = H.with(|h| {
                let h = h.borrow();
                h.ents.iter().enumerate().skip(1).filter(|(id, e)| e.drops == 0 && !e.leaked && owned.binary_search(&(*id as u32)).is_err()).map(|(id, _)| id as u32).collect()
            });
            if !dup.is_empty() {
                if let Some(f) = &mut self.fail {
                    if f.classes & (cls::CONTENTS | cls::RET) != 0 && f.classes & cls::HARNESS == 0 {
                        f.classes |= cls::LEDGER;
                        f.msg = format!("{} [also: elements {:?} are reachable from two places]", f.msg, &dup[..dup.len().min(8)]);
                    }
                }
            }
            if !lost.is_empty() {
                if let Some(f) = &mut self.fail {
                    if f.classes & (cls::CONTENTS | cls::RET) != 0 && f.classes & cls::HARNESS == 0 {
                        f.classes |= cls::LEDGER;
                        f.msg = format!("{} [also: elements {:?} are alive but neither in a buffer nor with the caller (leaked)]", f.msg, &lost[..lost.len().min(8)]);
                    }
                }
            }
        }
        // history independence (C04): every fourth step, a freshly built twin with the same values
        // (contiguous, front at slot 0) must be indistinguishable under read-only traversals
        if self.fail.is_none() && self.faulted.is_none() && !self.window_panicked && self.cur % 4 == 1 {
            self.check_twin(x);
        }
        // RELOC (C20): only for calls that returned normally
        if self.fail.is_none() && self.faulted.is_none() && !self.window_panicked {
            if let Some(bound) = out.reloc_bound {
                let mut post = self.addr_snapshot(x);
                let mut pre = pre_addr.clone();
                pre.sort_unstable();
                post.sort_unstable();
                let mut moved = 0usize;
                let (mut i, mut j) = (0usize, 0usize);
                while i < pre.len() && j < post.len() {
                    match pre[i].0.cmp(&post[j].0) {
                        std::cmp::Ordering::Less => i += 1,
                        std::cmp::Ordering::Greater => j += 1,
                        std::cmp::Ordering::Equal => {
                            if pre[i].1 != post[j].1 {
                                moved += 1;
                            }
                            i += 1;
                            j += 1;
                        }
                    }
                }
                if moved > bound {
                    self.fail(
                        cls::RELOC,
                        format!("{} relocated {} surviving elements (bound {}), layout before: start={} size={} N={}", st.op.name(), moved, bound, pre_layout.0, pre_layout.1, N),
                    );
                }
            }
        }
        // ALLOC (C17): non-panicking calls other than boxed()/to_vec() never allocate
        if self.fail.is_none() && self.faulted.is_none() && !self.window_panicked && !out.may_alloc && self.allocs > 0 {
            self.fail(cls::ALLOC, format!("{} performed {} heap allocation(s) of its own", st.op.name(), self.allocs));
        }
        // trace
        {
            let (mut created, mut dropped, fired) = H.with(|h| {
                let h = h.borrow();
                (h.step_created.clone(), h.step_dropped.clone(), h.fired)
            });
            created.sort_unstable();
            dropped.sort_unstable();
            let line = self.trace.line();
            let _ = write!(line, " p={}{} c={:?} d={:?}", self.window_panicked as u8, fired as u8, created, dropped);
            for b in 0..2 {
                let _ = write!(line, " {}=[", if b == 0 { 'A' } else { 'B' });
                for it in &all_items[b] {
                    let _ = write!(line, "{}:{},", it.id, it.val);
                }
                line.push(']');
            }
            let _ = write!(line, " h={}", self.hand.len());
            if self.fail.is_some() {
                line.push_str(" FAIL");
            }
            self.trace.commit();
        }
        // coverage cell
        let nontrivial = out.nontrivial || self.window_panicked || pre_len > 0;
        if nontrivial {
            let fk = match st.fault {
                Some((k, _)) => 1 + k as u64 + if H.with(|h| h.borrow().fired) { NKINDS as u64 } else { 0 },
                None => 0,
            };
            self.stats.cell([N as u64, pre_layout.0 as u64, pre_layout.1 as u64, st.op as u64, out.argclass, fk]);
        }
        if self.fail.is_none() {
            self.poison();
        }
    }

    /// Builds a twin of buffer `x` holding equal values in a fresh layout and compares what
    /// read-only traversals and comparisons observe (by value). A difference means the result
    /// depends on the history by which the contents were reached.
    fn check_twin(&mut self, x: usize) {
        use std::fmt::Write as _;
        use std::hash::{Hash, Hasher};
        let vals: Vec<u32> = self.models[x].iter().map(|e| e.1).collect();
        if vals.is_empty() {
            return;
        }
        let mut twin: Box<crate::deque::Buf<N>> = Box::new(circular_buffer::CircularBuffer::new());
        for v in &vals {
            twin.push_back(Tracked::new(*v, crate::elem::Origin::Harness));
        }
        let len = vals.len();
        let a = (self.cur * 3 + 1) % (len + 1);
        let c = a + (self.cur * 7 + 2) % (len - a + 1);
        let mut bx = self.bufs[x].take().unwrap();
        let r = {
            let b: &mut crate::deque::Buf<N> = &mut bx;
            let t: &mut crate::deque::Buf<N> = &mut twin;
            crate::elem::window(|| {
                fn obs<const N: usize>(b: &mut crate::deque::Buf<N>, a: usize, c: usize) -> (Vec<u32>, Vec<u32>, Vec<u32>, Vec<u32>, Vec<u32>, String, u64) {
                    let f1 = b.iter().fold(Vec::new(), |mut v, t| { v.push(t.val); v });
                    let f2 = b.iter().rfold(Vec::new(), |mut v, t| { v.push(t.val); v });
                    let f3 = b.iter_mut().fold(Vec::new(), |mut v, t| { v.push(t.val); v });
                    let f4 = b.iter_mut().rfold(Vec::new(), |mut v, t| { v.push(t.val); v });
                    let f5 = b.range(a..c).rev().fold(Vec::new(), |mut v, t| { v.push(t.val); v });
                    let mut w = crate::deque_sess::HookWriter(String::new());
                    let _ = write!(w, "{:?}", b);
                    let mut h = crate::elem::RecHasher::new();
                    b.hash(&mut h);
                    (f1, f2, f3, f4, f5, w.0, h.finish())
                }
                let ob = obs(b, a, c);
                let ot = obs(t, a, c);
                (ob == ot, *b == *t, *t == *b, (*b).cmp(t))
            })
        };
        self.bufs[x] = Some(bx);
        self.allocs = 0;
        let _ = crate::alloc::take_op_allocs();
        match r {
            Ok((same, e1, e2, ord)) => {
                if !(same && e1 && e2 && ord == std::cmp::Ordering::Equal) {
                    self.fail(
                        cls::GARBAGE | cls::VIEW,
                        format!("buffer {x} with values {vals:?} is distinguishable from a freshly built buffer with the same values (traversals/Debug/Hash equal: {same}, a==b {e1}, b==a {e2}, cmp {ord:?}): the result depends on the layout / history"),
                    );
                }
            }
            Err(_) => {
                self.window_panicked = false;
                self.fail(cls::VIEW | cls::PANIC_SPEC, "a read-only traversal or comparison panicked".into());
            }
        }
        // the twin's elements are the harness's own
        drop(twin);
    }

    /// Seam S3: overwrite every unoccupied slot of both buffers with the run's garbage pattern.
    pub fn poison(&mut self) {
        if self.garbage == Garbage::None || N == 0 {
            return;
        }
        for b in 0..2 {
            // candidates for the "live copy" pattern: bytes of live elements held elsewhere
            let (start, size, ptr) = self.bufs[b].as_mut().unwrap().verif_raw_parts();
            if size >= N {
                continue;
            }
            for slot in 0..N {
                let rel = (slot + N - start) % N;
                if rel < size {
                    continue;
                }
                let pat = if self.garbage == Garbage::Mixed {
                    [Garbage::Zero, Garbage::Ones, Garbage::X5A, Garbage::Random, Garbage::StaleDead, Garbage::LiveCopy][self.grng.below(6) as usize]
                } else {
                    self.garbage
                };
                let bytes: [u8; 16] = match pat {
                    Garbage::Zero => [0u8; 16],
                    Garbage::Ones => [0xFF; 16],
                    Garbage::Random => {
                        let mut t = [0u8; 16];
                        t[..8].copy_from_slice(&self.grng.next_u64().to_le_bytes());
                        t[8..].copy_from_slice(&self.grng.next_u64().to_le_bytes());
                        // make sure it is not accidentally a valid element
                        let id = u32::from_ne_bytes(t[0..4].try_into().unwrap());
                        let gen = u32::from_ne_bytes(t[4..8].try_into().unwrap());
                        let val = u32::from_ne_bytes(t[8..12].try_into().unwrap());
                        let c = u32::from_ne_bytes(t[12..16].try_into().unwrap());
                        if c == chk(id, gen, val) {
                            t[12] ^= 1;
                        }
                        t
                    }
                    Garbage::StaleDead => self.dead_bytes().unwrap_or([0x5A; 16]),
                    Garbage::LiveCopy => self.live_bytes(b).unwrap_or([0x5A; 16]),
                    _ => [0x5A; 16],
                };
                // SAFETY: `slot < N`, the slot is outside the occupied range, and MaybeUninit<T>
                // may hold any bytes.
                unsafe {
                    let dst = ptr.add(slot) as *mut u8;
                    std::ptr::copy_nonoverlapping(bytes.as_ptr(), dst, 16);
                    // the rest of a big element gets the pattern's first byte
                    std::ptr::write_bytes(dst.add(16), bytes[0], std::mem::size_of::<Tracked>() - 16);
                }
                self.stats.poisons += 1;
            }
        }
        self.stats.probe(Probe::PoisonApplied);
    }

    fn dead_bytes(&mut self) -> Option<[u8; 16]> {
        let r = self.grng.next_u64();
        H.with(|h| {
            let h = h.borrow();
            let n = h.ents.len();
            if n <= 1 {
                return None;
            }
            // scan from a random position for a destroyed element
            let s0 = 1 + (r as usize) % (n - 1);
            for k in 0..(n - 1) {
                let id = 1 + (s0 - 1 + k) % (n - 1);
                let e = &h.ents[id];
                if e.drops > 0 {
                    let t = [id as u32, e.gen, e.val, chk(id as u32, e.gen, e.val)];
                    let mut b = [0u8; 16];
                    for (i, w) in t.iter().enumerate() {
                        b[i * 4..i * 4 + 4].copy_from_slice(&w.to_ne_bytes());
                    }
                    return Some(b);
                }
            }
            None
        })
    }

    fn live_bytes(&mut self, b: usize) -> Option<[u8; 16]> {
        let mut cands: Vec<[u8; 16]> = Vec::new();
        for t in &self.hand {
            cands.push(t.bytes());
        }
        for bb in 0..2 {
            let _ = b;
            for t in self.bufs[bb].as_ref().unwrap().iter() {
                if H.with(|h| h.borrow().classify(t)) == Class::Live {
                    cands.push(t.bytes());
                }
            }
        }
        if cands.is_empty() {
            None
        } else {
            let i = self.grng.below(cands.len() as u64) as usize;
            Some(cands[i])
        }
    }

    /// Drops both buffers (each in an operation window: `Drop for CircularBuffer` is crate code)
    /// and the hand, then requires every element to be destroyed exactly once (or leaked, when a
    /// fault that permits leaks happened).
    pub fn final_drop(&mut self, step: usize) {
        self.cur = step;
        self.cur_op = Op::DropBuf;
        H.with(|h| h.borrow_mut().begin_step(step as u32, None));
        self.faulted = None;
        for b in 0..2 {
            let buf = self.bufs[b].take().unwrap();
            let r = self.win(move || drop(buf));
            let _ = self.settle(r, false, cls::LEDGER);
            self.models[b].clear();
            self.bufs[b] = Some(new_buf::<N>(0, false));
        }
        let hand = std::mem::take(&mut self.hand);
        drop(hand);
        self.check_hook_violations(0);
        if self.fail.is_none() {
            self.check_conservation(self.run_family, 0);
        }
        let live = H.with(|h| h.borrow().live);
        if self.fail.is_none() && live != 0 {
            self.fail(cls::HARNESS, format!("ledger inconsistent after final drop: live={live}"));
        }
        let _ = write!(self.trace.line(), "final live={live}");
        self.trace.commit();
    }

    /// After a failure: get rid of the buffers without running element destructors in a way
    /// that could cascade (the state may be corrupt).
    pub fn abandon(&mut self) {
        for b in 0..2 {
            if let Some(buf) = self.bufs[b].take() {
                std::mem::forget(buf);
            }
        }
        let hand = std::mem::take(&mut self.hand);
        std::mem::forget(hand);
        H.with(|h| h.borrow_mut().viol.clear());
    }
}

#[allow(dead_code)]
pub fn tracked_size_ok() -> bool {
    std::mem::size_of::<Tracked>() == 16
}

#[allow(dead_code)]
fn _unused(_: FaultFamily) {}
