//! Seam S1/S2: the element type under the simulator's control, and the per-thread world the
//! element hooks report to (ledger, fault plan, call counters, violations).
//!
//! `Tracked` is 16 bytes, `repr(C)`, no padding, no pointers: touching a garbage or stale copy
//! is memory-safe in practice, so the simulator survives to *report* it.

use std::cell::{Cell, RefCell};
use std::cmp::Ordering;
use std::fmt;
use std::hash::{Hash, Hasher};

#[derive(Clone, Copy, PartialEq, Eq, Debug)]
pub enum Origin {
    Harness,
    CloneOf(u32),
    Closure,
    IterSrc,
}

#[derive(Clone, Copy, PartialEq, Eq, Debug, PartialOrd, Ord)]
#[repr(u8)]
pub enum FaultKind {
    Drop = 0,
    Clone = 1,
    Closure = 2,
    Iter = 3,
    Cmp = 4,
}
pub const NKINDS: usize = 5;
/// element value without an order (partial_cmp returns None)
pub const NAN_VAL: u32 = 3;
pub const KIND_NAMES: [&str; NKINDS] = ["drop", "clone", "closure", "iter", "cmp"];

impl FaultKind {
    pub fn from_idx(i: usize) -> FaultKind {
        match i {
            0 => FaultKind::Drop,
            1 => FaultKind::Clone,
            2 => FaultKind::Closure,
            3 => FaultKind::Iter,
            _ => FaultKind::Cmp,
        }
    }
    pub fn name(self) -> &'static str {
        KIND_NAMES[self as usize]
    }
    pub fn parse(s: &str) -> Option<FaultKind> {
        KIND_NAMES.iter().position(|n| *n == s).map(FaultKind::from_idx)
    }
}

/// Payload of an injected panic. Raised with `resume_unwind`, so the panic hook is not involved.
pub struct Injected(pub FaultKind);

#[derive(Clone, Copy, PartialEq, Eq, Debug)]
pub enum Viol {
    /// A hook ran on bytes that are not a `Tracked` the simulator ever created (bad checksum).
    GarbageTouched,
    /// A hook (other than drop) ran on a copy of an element that is destroyed / moved out.
    DeadTouched,
    /// Destructor ran on a stale (old generation) copy of an element.
    StaleDropped,
    /// Destructor ran a second time for the same element.
    DoubleDrop,
    /// Element that was marked leaked after a fault was touched again.
    LeakedTouched,
}

pub struct Ent {
    pub gen: u32,
    pub val: u32,
    pub origin: Origin,
    pub drops: u8,
    pub leaked: bool,
    pub born_step: u32,
}

pub struct Hooks {
    pub ents: Vec<Ent>,
    /// number of ids with drops == 0 && !leaked
    pub live: usize,
    pub step: u32,
    pub in_op: bool,
    pub plan: Option<(FaultKind, u32)>,
    pub fired: bool,
    pub counts: [u32; NKINDS],
    pub step_created: Vec<u32>,
    pub step_dropped: Vec<u32>,
    /// drops that happened inside an op window (crate code running), this step
    pub op_dropped: Vec<u32>,
    pub viol: Vec<(Viol, u32, &'static str)>,
    pub total_created: u64,
    pub total_dropped: u64,
}

impl Hooks {
    pub const fn new() -> Self {
        Hooks {
            ents: Vec::new(),
            live: 0,
            step: 0,
            in_op: false,
            plan: None,
            fired: false,
            counts: [0; NKINDS],
            step_created: Vec::new(),
            step_dropped: Vec::new(),
            op_dropped: Vec::new(),
            viol: Vec::new(),
            total_created: 0,
            total_dropped: 0,
        }
    }

    pub fn reset(&mut self) {
        self.ents.clear();
        self.ents.push(Ent { gen: 0, val: 0, origin: Origin::Harness, drops: 1, leaked: false, born_step: 0 });
        self.live = 0;
        self.step = 0;
        self.in_op = false;
        self.plan = None;
        self.fired = false;
        self.counts = [0; NKINDS];
        self.step_created.clear();
        self.step_dropped.clear();
        self.op_dropped.clear();
        self.viol.clear();
        self.total_created = 0;
        self.total_dropped = 0;
    }

    pub fn begin_step(&mut self, step: u32, plan: Option<(FaultKind, u32)>) {
        self.step = step;
        self.plan = plan;
        self.fired = false;
        self.counts = [0; NKINDS];
        self.step_created.clear();
        self.step_dropped.clear();
        self.op_dropped.clear();
    }

    fn create(&mut self, val: u32, origin: Origin) -> Tracked {
        let id = self.ents.len() as u32;
        self.ents.push(Ent { gen: 0, val, origin, drops: 0, leaked: false, born_step: self.step });
        self.live += 1;
        self.total_created += 1;
        self.step_created.push(id);
        Tracked {
            id,
            gen: 0,
            val,
            chk: chk(id, 0, val),
            #[cfg(feature = "big_elem")]
            pad: [0x5C5C_5C5C_5C5C_5C5C; 14],
        }
    }

    /// Counts a user-code call of `kind`; returns true when the planned fault must fire now.
    #[inline]
    fn tick(&mut self, kind: FaultKind) -> bool {
        if !self.in_op {
            return false;
        }
        let c = &mut self.counts[kind as usize];
        *c += 1;
        if let Some((k, n)) = self.plan {
            if k == kind && !self.fired && *c == n {
                self.fired = true;
                return true;
            }
        }
        false
    }

    /// Classifies the bytes of `t`. Ok(()) when it is the current incarnation of a live element.
    #[inline]
    pub fn classify(&self, t: &Tracked) -> Class {
        if t.id == 0 || (t.id as usize) >= self.ents.len() || t.chk != chk(t.id, t.gen, t.val) {
            return Class::Garbage;
        }
        let e = &self.ents[t.id as usize];
        if e.gen != t.gen {
            return Class::Stale;
        }
        if e.drops > 0 {
            return Class::Dead;
        }
        if e.leaked {
            return Class::Leaked;
        }
        Class::Live
    }

    fn touch(&mut self, t: &Tracked, what: &'static str) -> bool {
        match self.classify(t) {
            Class::Live => true,
            Class::Garbage => {
                self.viol.push((Viol::GarbageTouched, t.id, what));
                false
            }
            Class::Stale | Class::Dead => {
                self.viol.push((Viol::DeadTouched, t.id, what));
                false
            }
            Class::Leaked => {
                self.viol.push((Viol::LeakedTouched, t.id, what));
                false
            }
        }
    }
}

#[derive(Clone, Copy, PartialEq, Eq, Debug)]
pub enum Class {
    Live,
    Garbage,
    Stale,
    Dead,
    Leaked,
}

thread_local! {
    pub static H: RefCell<Hooks> = const { RefCell::new(Hooks::new()) };
    /// >0 while harness-owned code (element hooks, closures, iterators, writers) runs; the
    /// allocation watch ignores allocations made there.
    pub static HOOK_DEPTH: Cell<u32> = const { Cell::new(0) };
}

pub struct HookScope;
impl HookScope {
    #[inline]
    pub fn enter() -> HookScope {
        HOOK_DEPTH.with(|d| d.set(d.get() + 1));
        HookScope
    }
}
impl Drop for HookScope {
    #[inline]
    fn drop(&mut self) {
        HOOK_DEPTH.with(|d| d.set(d.get() - 1));
    }
}

#[inline]
pub fn chk(id: u32, gen: u32, val: u32) -> u32 {
    (id.wrapping_mul(0x9E37_79B1) ^ gen.rotate_left(13).wrapping_mul(0x85EB_CA6B) ^ val.wrapping_mul(0xC2B2_AE35))
        ^ 0xA5A5_5A5A
}

#[repr(C)]
pub struct Tracked {
    pub id: u32,
    pub gen: u32,
    pub val: u32,
    pub chk: u32,
    /// configuration `big_elem`: 128-byte elements, so that "larger than K bytes" paths of the
    /// crate are taken; carries no information
    #[cfg(feature = "big_elem")]
    pub pad: [u64; 14],
}

/// bytes of the identifying header (id, gen, val, chk)
pub const TRACKED_SIZE: usize = 16;

fn fire(kind: FaultKind) -> ! {
    std::panic::resume_unwind(Box::new(Injected(kind)))
}

impl Tracked {
    pub fn new(val: u32, origin: Origin) -> Tracked {
        let _s = HookScope::enter();
        H.with(|h| h.borrow_mut().create(val, origin))
    }

    /// The harness took ownership of this element: bump the generation so that any stale bit
    /// copy left behind in the array is distinguishable from the live object.
    pub fn bump_gen(&mut self) {
        H.with(|h| {
            let mut h = h.borrow_mut();
            if h.classify(self) == Class::Live {
                let e = &mut h.ents[self.id as usize];
                e.gen += 1;
                self.gen = e.gen;
                self.chk = chk(self.id, self.gen, self.val);
            }
        });
    }

    /// Write through a mutable view: changes the value in place (no lifecycle event).
    pub fn set_val(&mut self, val: u32) {
        H.with(|h| {
            let mut h = h.borrow_mut();
            if h.classify(self) == Class::Live {
                h.ents[self.id as usize].val = val;
                self.val = val;
                self.chk = chk(self.id, self.gen, self.val);
            } else {
                h.viol.push((Viol::DeadTouched, self.id, "set_val"));
            }
        });
    }

    pub fn bytes(&self) -> [u8; TRACKED_SIZE] {
        let mut b = [0u8; TRACKED_SIZE];
        b[0..4].copy_from_slice(&self.id.to_ne_bytes());
        b[4..8].copy_from_slice(&self.gen.to_ne_bytes());
        b[8..12].copy_from_slice(&self.val.to_ne_bytes());
        b[12..16].copy_from_slice(&self.chk.to_ne_bytes());
        b
    }
}

impl Drop for Tracked {
    fn drop(&mut self) {
        let _s = HookScope::enter();
        let fire_now = H.with(|h| {
            let mut h = h.borrow_mut();
            match h.classify(self) {
                Class::Garbage => {
                    h.viol.push((Viol::GarbageTouched, self.id, "drop"));
                    false
                }
                Class::Stale => {
                    h.viol.push((Viol::StaleDropped, self.id, "drop"));
                    false
                }
                Class::Dead => {
                    h.viol.push((Viol::DoubleDrop, self.id, "drop"));
                    let e = &mut h.ents[self.id as usize];
                    e.drops = e.drops.saturating_add(1);
                    false
                }
                Class::Leaked => {
                    h.viol.push((Viol::LeakedTouched, self.id, "drop"));
                    false
                }
                Class::Live => {
                    let id = self.id;
                    h.ents[id as usize].drops = 1;
                    h.live -= 1;
                    h.total_dropped += 1;
                    h.step_dropped.push(id);
                    if h.in_op {
                        h.op_dropped.push(id);
                    }
                    h.tick(FaultKind::Drop)
                }
            }
        });
        if fire_now {
            drop(_s);
            fire(FaultKind::Drop);
        }
    }
}

impl Clone for Tracked {
    fn clone(&self) -> Tracked {
        let s = HookScope::enter();
        let r = H.with(|h| {
            let mut h = h.borrow_mut();
            let ok = h.touch(self, "clone");
            if h.tick(FaultKind::Clone) {
                return None;
            }
            let origin = if ok { Origin::CloneOf(self.id) } else { Origin::CloneOf(0) };
            Some(h.create(self.val, origin))
        });
        drop(s);
        match r {
            Some(t) => t,
            None => fire(FaultKind::Clone),
        }
    }
}

#[inline]
fn cmp_hook(t: &Tracked, what: &'static str) {
    let s = HookScope::enter();
    let f = H.with(|h| {
        let mut h = h.borrow_mut();
        h.touch(t, what);
        h.tick(FaultKind::Cmp)
    });
    drop(s);
    if f {
        fire(FaultKind::Cmp);
    }
}

#[inline]
fn touch_only(t: &Tracked, what: &'static str) {
    let _s = HookScope::enter();
    H.with(|h| {
        h.borrow_mut().touch(t, what);
    });
}

impl PartialEq for Tracked {
    fn eq(&self, other: &Tracked) -> bool {
        touch_only(other, "eq-rhs");
        cmp_hook(self, "eq");
        // the NaN-like value is not even equal to itself
        self.val == other.val && self.val != NAN_VAL
    }
}
impl Eq for Tracked {}

impl PartialOrd for Tracked {
    fn partial_cmp(&self, other: &Tracked) -> Option<Ordering> {
        touch_only(other, "partial_cmp-rhs");
        cmp_hook(self, "partial_cmp");
        if self.val == NAN_VAL || other.val == NAN_VAL {
            // a NaN-like value: equal to itself under `==` but not ordered (only cross_cmp plants it)
            return None;
        }
        Some(self.val.cmp(&other.val))
    }
}
impl Ord for Tracked {
    fn cmp(&self, other: &Tracked) -> Ordering {
        touch_only(other, "cmp-rhs");
        cmp_hook(self, "cmp");
        self.val.cmp(&other.val)
    }
}

impl Hash for Tracked {
    fn hash<H2: Hasher>(&self, state: &mut H2) {
        cmp_hook(self, "hash");
        state.write_u32(self.val);
    }
}

impl fmt::Debug for Tracked {
    fn fmt(&self, f: &mut fmt::Formatter<'_>) -> fmt::Result {
        cmp_hook(self, "fmt");
        f.debug_tuple("T").field(&self.val).finish()
    }
}

/// Hook-free value used on the model side of comparisons and for expected `Debug` output.
#[derive(Clone, Copy, PartialEq, Eq, PartialOrd, Ord)]
pub struct Plain(pub u32);

impl fmt::Debug for Plain {
    fn fmt(&self, f: &mut fmt::Formatter<'_>) -> fmt::Result {
        f.debug_tuple("T").field(&self.0).finish()
    }
}

impl PartialEq<Plain> for Tracked {
    fn eq(&self, other: &Plain) -> bool {
        cmp_hook(self, "eq-plain");
        self.val == other.0 && self.val != NAN_VAL
    }
}

/// Recording hasher: folds the exact `write_*` byte stream (no `RandomState`).
pub struct RecHasher(pub crate::rng::Fnv);
impl RecHasher {
    pub fn new() -> Self {
        RecHasher(crate::rng::Fnv::new())
    }
}
impl Hasher for RecHasher {
    fn finish(&self) -> u64 {
        (self.0).0
    }
    fn write(&mut self, bytes: &[u8]) {
        // sensitive to how the byte stream is cut into write() calls, like word-at-a-time
        // hashers are: equal buffers must produce the same *sequence of calls*
        self.0.write_u64(bytes.len() as u64);
        self.0.write(bytes);
    }
}

/// Panic classification as seen by the harness.
#[derive(Clone, Debug, PartialEq, Eq)]
pub enum PanicKind {
    Injected(FaultKind),
    Other(String),
}

thread_local! {
    pub static LAST_PANIC: RefCell<String> = const { RefCell::new(String::new()) };
}

/// Installs a silent panic hook that records message and location per thread.
pub fn install_panic_hook() {
    std::panic::set_hook(Box::new(|info| {
        let _s = HookScope::enter();
        let msg = if let Some(s) = info.payload().downcast_ref::<&str>() {
            (*s).to_string()
        } else if let Some(s) = info.payload().downcast_ref::<String>() {
            s.clone()
        } else {
            "<non-string payload>".to_string()
        };
        let loc = info.location().map(|l| format!("{}:{}", l.file(), l.line())).unwrap_or_default();
        let _ = LAST_PANIC.try_with(|p| {
            *p.borrow_mut() = format!("{msg} @ {loc}");
        });
    }));
}

/// Runs `f` as one *operation window*: crate code under test, with the fault plan armed and
/// the allocation watch on. Unwinding is caught and classified.
#[inline]
pub fn window<R>(f: impl FnOnce() -> R) -> Result<R, PanicKind> {
    H.with(|h| h.borrow_mut().in_op = true);
    crate::alloc::op_begin();
    let r = std::panic::catch_unwind(std::panic::AssertUnwindSafe(f));
    crate::alloc::op_end();
    H.with(|h| h.borrow_mut().in_op = false);
    match r {
        Ok(v) => Ok(v),
        Err(payload) => {
            let _s = HookScope::enter();
            if let Some(inj) = payload.downcast_ref::<Injected>() {
                Err(PanicKind::Injected(inj.0))
            } else {
                let m = LAST_PANIC.with(|p| p.borrow().clone());
                Err(PanicKind::Other(m))
            }
        }
    }
}

/// Harness-owned closure/iterator bodies run under this scope and may carry a planned fault.
pub fn user_code_tick(kind: FaultKind) {
    let f = H.with(|h| h.borrow_mut().tick(kind));
    if f {
        fire(kind);
    }
}

thread_local! {
    /// number of `NoDrop::clone` calls since it was last reset
    pub static NODROP_CLONES: Cell<u64> = const { Cell::new(0) };
}

/// Element type without drop glue whose `Clone` is observable (call counter, generation).
#[derive(Debug, PartialEq)]
pub struct NoDrop {
    pub val: u32,
    pub gen: u32,
}

impl Clone for NoDrop {
    fn clone(&self) -> NoDrop {
        NODROP_CLONES.with(|c| c.set(c.get() + 1));
        NoDrop { val: self.val, gen: self.gen + 1 }
    }
}
