//! The `zst` scenario (C19): a drop-counting zero-sized element and capacities up to
//! usize::MAX, with front positions driven to within a few slots of 0 and of N. Identity is
//! impossible for a ZST, so the model is a count model: lengths, return shapes, emptiness /
//! fullness, documented panics, and created − destroyed = elements in buffers + with the caller.

use crate::elem::{window, PanicKind};
use crate::exec::{cls, Failure, Outcome, Probe, RunStats, Trace};
use crate::rng::{mix, Rng};
use crate::script::{Garbage, Op, RangeSpec, Scenario, Script, Step};
use crate::with_range;
use circular_buffer::CircularBuffer;
use std::cell::Cell;
use std::fmt::Write as _;
use std::hash::{Hash, Hasher};

thread_local! {
    static CREATED: Cell<u64> = const { Cell::new(0) };
    static DESTROYED: Cell<u64> = const { Cell::new(0) };
}

pub struct Zst;
impl Zst {
    fn new() -> Zst {
        CREATED.with(|c| c.set(c.get() + 1));
        Zst
    }
}
impl Drop for Zst {
    fn drop(&mut self) {
        DESTROYED.with(|c| c.set(c.get() + 1));
    }
}
thread_local! {
    /// planned clone panic: the k-th `Zst::clone` from now unwinds (0 = none planned)
    static CLONE_BOMB: Cell<u64> = const { Cell::new(0) };
}
impl Clone for Zst {
    fn clone(&self) -> Zst {
        let k = CLONE_BOMB.with(|c| c.get());
        if k > 0 {
            CLONE_BOMB.with(|c| c.set(k - 1));
            if k == 1 {
                std::panic::resume_unwind(Box::new(crate::elem::Injected(crate::elem::FaultKind::Clone)));
            }
        }
        Zst::new()
    }
}
impl PartialEq for Zst {
    fn eq(&self, _: &Zst) -> bool {
        true
    }
}
impl Eq for Zst {}
impl PartialOrd for Zst {
    fn partial_cmp(&self, _: &Zst) -> Option<std::cmp::Ordering> {
        Some(std::cmp::Ordering::Equal)
    }
}
impl Ord for Zst {
    fn cmp(&self, _: &Zst) -> std::cmp::Ordering {
        std::cmp::Ordering::Equal
    }
}
impl Hash for Zst {
    fn hash<H: Hasher>(&self, h: &mut H) {
        h.write_u8(7);
    }
}
impl std::fmt::Debug for Zst {
    fn fmt(&self, f: &mut std::fmt::Formatter<'_>) -> std::fmt::Result {
        f.write_str("Z")
    }
}

/// A second zero-sized type that is never equal to a `Zst` (NaN-like): zero-sized elements may
/// still carry a non-trivial `PartialEq`.
pub struct ZNe;
impl PartialEq<ZNe> for Zst {
    fn eq(&self, _: &ZNe) -> bool {
        false
    }
}

pub const ZST_NS: [usize; 10] = [
    1,
    2,
    (1usize << 32) - 1,
    1usize << 32,
    (1usize << 32) + 1,
    (1usize << 63) - 1,
    1usize << 63,
    (1usize << 63) + 1,
    usize::MAX - 1,
    usize::MAX,
];

pub fn run(script: &Script, keep: bool) -> Outcome {
    // `script.n` is an index into ZST_NS
    match script.n {
        0 => run_n::<{ ZST_NS[0] }>(script, keep),
        1 => run_n::<{ ZST_NS[1] }>(script, keep),
        2 => run_n::<{ ZST_NS[2] }>(script, keep),
        3 => run_n::<{ ZST_NS[3] }>(script, keep),
        4 => run_n::<{ ZST_NS[4] }>(script, keep),
        5 => run_n::<{ ZST_NS[5] }>(script, keep),
        6 => run_n::<{ ZST_NS[6] }>(script, keep),
        7 => run_n::<{ ZST_NS[7] }>(script, keep),
        8 => run_n::<{ ZST_NS[8] }>(script, keep),
        9 => run_n::<{ ZST_NS[9] }>(script, keep),
        n => crate::harness_fail(format!("capacity index {n} is not compiled for the zst scenario")),
    }
}

struct ZEx<const N: usize> {
    bufs: [Option<Box<CircularBuffer<N, Zst>>>; 2],
    len: [usize; 2],
    hand: Vec<Zst>,
    trace: Trace,
    fail: Option<Failure>,
    stats: RunStats,
    cur: usize,
    cur_op: Op,
    allocs: u32,
    panicked: bool,
    /// a clone panic is planned for this step / has fired in it
    bomb: bool,
    /// a drain was leaked earlier in this run
    forgot: bool,
    user_faulted: bool,
    /// elements leaked by a forgotten drain (allowed by C10)
    leaked: u64,
}

fn run_n<const N: usize>(script: &Script, keep: bool) -> Outcome {
    CREATED.with(|c| c.set(0));
    DESTROYED.with(|c| c.set(0));
    let _ = crate::alloc::take_op_allocs();
    let mut ex = ZEx::<N> {
        bufs: [Some(Box::new(CircularBuffer::new())), Some(Box::new(CircularBuffer::new()))],
        len: [0, 0],
        hand: Vec::new(),
        trace: Trace::new(keep),
        fail: None,
        stats: RunStats::new(),
        cur: 0,
        cur_op: Op::New,
        allocs: 0,
        panicked: false,
        bomb: false,
        forgot: false,
        user_faulted: false,
        leaked: 0,
    };
    for (i, st) in script.steps.iter().enumerate() {
        let r = std::panic::catch_unwind(std::panic::AssertUnwindSafe(|| ex.step(i, st)));
        if r.is_err() {
            // the observers only call views and iterators (get / nth_* / range / iter / as_slices)
            let (c, m) = crate::exec::classify_stray_panic(cls::ZST | cls::PANIC_SPEC | cls::VIEW | cls::ITER);
            ex.cur = i;
            ex.fail(c, m);
            // the buffer taken out of its slot during the step is gone: do not touch it again
            for b in 0..2 {
                if ex.bufs[b].is_none() {
                    ex.bufs[b] = Some(Box::new(CircularBuffer::new()));
                }
            }
        }
        if ex.fail.is_some() {
            break;
        }
    }
    if ex.fail.is_none() {
        // final drop: every element destroyed exactly once
        for b in 0..2 {
            let buf = ex.bufs[b].take().unwrap();
            let r = window(move || drop(buf));
            if r.is_err() {
                ex.fail(cls::ZST, "dropping the buffer panicked".into());
            }
            ex.bufs[b] = Some(Box::new(CircularBuffer::new()));
            ex.len[b] = 0;
        }
        ex.hand.clear();
        let (c, d) = (CREATED.with(|c| c.get()), DESTROYED.with(|c| c.get()));
        if c != d + ex.leaked && ex.fail.is_none() {
            ex.cur = script.steps.len();
            ex.fail(cls::ZST | cls::LEDGER, format!("after dropping everything: {c} elements created, {d} destructor runs"));
        }
    } else {
        for b in 0..2 {
            if let Some(buf) = ex.bufs[b].take() {
                std::mem::forget(buf);
            }
        }
    }
    Outcome { digest: ex.trace.fnv.0, failure: ex.fail.take(), stats: ex.stats, trace: ex.trace.text.take() }
}

impl<const N: usize> ZEx<N> {
    fn fail(&mut self, classes: u32, msg: String) {
        if self.fail.is_none() {
            self.fail = Some(Failure { step: self.cur, classes, op: self.cur_op, msg });
        }
    }

    fn call<R>(&mut self, expect_panic: bool, f: impl FnOnce() -> R) -> Option<R> {
        let r = window(f);
        self.allocs += crate::alloc::take_op_allocs();
        match r {
            Ok(v) => {
                if expect_panic {
                    self.fail(cls::ZST | cls::PANIC_SPEC, "call returned normally although the documented panic condition holds".into());
                    drop(v);
                    None
                } else {
                    Some(v)
                }
            }
            Err(PanicKind::Injected(_)) => {
                if self.bomb {
                    self.user_faulted = true;
                    self.stats.fault_fired[crate::elem::FaultKind::Clone as usize] += 1;
                } else {
                    self.fail(cls::HARNESS, "injected fault in zst scenario".into());
                }
                None
            }
            Err(PanicKind::Other(m)) => {
                self.panicked = true;
                if expect_panic {
                    self.stats.doc_panics += 1;
                } else {
                    let own = match self.cur_op {
                        Op::PushBack | Op::PushFront | Op::TryPushBack | Op::TryPushFront | Op::Fill => cls::RET | cls::IDENT,
                        Op::Drain => cls::DRAIN,
                        Op::FromArray | Op::CloneTo | Op::CloneFrom | Op::IntoIter | Op::ToVec => cls::CTOR,
                        Op::CmpBufs | Op::DebugFmt => cls::CMP,
                        Op::Iter | Op::Range | Op::IterMut | Op::RangeMut => cls::ITER,
                        _ => cls::RET,
                    };
                    // C10: after a leaked drain the buffer "behaves normally"
                    let fam = if self.forgot { cls::FORGET } else { 0 };
                    self.fail(cls::ZST | cls::PANIC_SPEC | own | fam, format!("{} panicked at capacity {N}: {m}", self.cur_op.name()));
                }
                None
            }
        }
    }

    fn take(&mut self, c: usize) -> Zst {
        if c > 0 && !self.hand.is_empty() {
            self.hand.pop().unwrap()
        } else {
            Zst::new()
        }
    }

    fn step(&mut self, i: usize, st: &Step) {
        self.cur = i;
        self.cur_op = st.op;
        self.allocs = 0;
        self.panicked = false;
        self.user_faulted = false;
        self.bomb = matches!(st.op, Op::ExtendFromSlice | Op::CloneTo | Op::CloneFrom | Op::ToVec) && st.b > 0;
        CLONE_BOMB.with(|c| c.set(if self.bomb { st.b as u64 } else { 0 }));
        if self.bomb {
            self.stats.fault_configured[crate::elem::FaultKind::Clone as usize] += 1;
        }
        self.stats.steps += 1;
        let x = (st.buf & 1) as usize;
        let y = 1 - x;
        let len = self.len[x];
        let (start, size) = self.bufs[x].as_ref().unwrap().verif_layout();
        if N > 2 && start >= N - 2 {
            self.stats.probe(Probe::ZstStartNearN);
        }
        if start.checked_add(size).is_none() {
            self.stats.probe(Probe::ZstAddModOverflow);
        }
        let _ = write!(self.trace.line(), "{} {} x={}", i, st.op.name(), x);
        let mut may_alloc = false;
        let mut bx = self.bufs[x].take().unwrap();
        {
            let b: &mut CircularBuffer<N, Zst> = &mut bx;
            match st.op {
                Op::PushBack | Op::PushFront => {
                    let t = self.take(st.c);
                    let back = st.op == Op::PushBack;
                    if let Some(r) = self.call(false, || if back { b.push_back(t) } else { b.push_front(t) }) {
                        let want_some = len == N;
                        if r.is_some() != want_some {
                            self.fail(cls::ZST | cls::RET, format!("{} at len {len} returned {}", st.op.name(), if r.is_some() { "Some" } else { "None" }));
                        }
                        if let Some(t) = r {
                            self.hand.push(t);
                        } else {
                            self.len[x] += 1;
                        }
                    }
                }
                Op::TryPushBack | Op::TryPushFront => {
                    let t = self.take(st.c);
                    let back = st.op == Op::TryPushBack;
                    if let Some(r) = self.call(false, || if back { b.try_push_back(t) } else { b.try_push_front(t) }) {
                        if r.is_err() != (len == N) {
                            self.fail(cls::ZST | cls::RET, format!("{} at len {len} returned {}", st.op.name(), if r.is_err() { "Err" } else { "Ok" }));
                        }
                        match r {
                            Err(t) => self.hand.push(t),
                            Ok(()) => self.len[x] += 1,
                        }
                    }
                }
                Op::PopBack | Op::PopFront | Op::Remove | Op::SwapRemoveBack | Op::SwapRemoveFront => {
                    let op = st.op;
                    let a = st.a;
                    let want = match op {
                        Op::PopBack | Op::PopFront => len > 0,
                        _ => a < len,
                    };
                    if let Some(r) = self.call(false, || match op {
                        Op::PopBack => b.pop_back(),
                        Op::PopFront => b.pop_front(),
                        Op::Remove => b.remove(a),
                        Op::SwapRemoveBack => b.swap_remove_back(a),
                        _ => b.swap_remove_front(a),
                    }) {
                        if r.is_some() != want {
                            self.fail(cls::ZST | cls::RET, format!("{}({a}) at len {len} returned {}", op.name(), if r.is_some() { "Some" } else { "None" }));
                        }
                        if let Some(t) = r {
                            self.hand.push(t);
                            self.len[x] -= 1;
                        }
                    }
                }
                Op::Swap => {
                    let (a, c) = (st.a, st.b);
                    let _ = self.call(a >= len || c >= len, || b.swap(a, c));
                }
                Op::TruncateBack | Op::TruncateFront | Op::Clear => {
                    let op = st.op;
                    let a = if op == Op::Clear { 0 } else { st.a };
                    if self.call(false, || match op {
                        Op::TruncateBack => b.truncate_back(a),
                        Op::TruncateFront => b.truncate_front(a),
                        _ => b.clear(),
                    })
                    .is_some()
                    {
                        self.len[x] = len.min(a);
                    }
                }
                Op::ExtendFromSlice | Op::Extend => {
                    let k = st.vals.len();
                    let src: Vec<Zst> = (0..k).map(|_| Zst::new()).collect();
                    let ok = if st.op == Op::ExtendFromSlice {
                        self.call(false, || b.extend_from_slice(&src)).is_some()
                    } else {
                        let r = self.call(false, || b.extend(src.into_iter())).is_some();
                        self.allocs = 0;
                        r
                    };
                    if ok {
                        self.len[x] = if N - len >= k { len + k } else { N };
                    } else if self.user_faulted {
                        // a clone panicked: whatever was written so far is owned by the buffer
                        self.len[x] = b.len();
                    }
                }
                Op::MakeContiguous => {
                    if let Some(l) = self.call(false, || b.make_contiguous().len()) {
                        if l != len {
                            self.fail(cls::ZST, format!("make_contiguous() returned {l} elements at len {len}"));
                        }
                    }
                }
                Op::Drain | Op::Iter | Op::Range | Op::IterMut | Op::RangeMut => {
                    let op = st.op;
                    let rs = if op == Op::Iter || op == Op::IterMut { RangeSpec::full() } else { st.rs };
                    let res = rs.resolve(len);
                    let sel = res.map(|(a, c)| c - a).unwrap_or(0);
                    let word = &st.word;
                    let forget = op == Op::Drain && st.c % 2 == 1;
                    let r = self.call(res.is_err(), || -> (usize, usize, Vec<Zst>) {
                        // returns (len reported at the start, items yielded, drained items)
                        macro_rules! walk {
                            ($it:expr, $keep:expr) => {{
                                // ManuallyDrop: if a sub-step panics the iterator is not dropped
                                // during unwinding (a second panic in its Drop would abort)
                                let mut it = std::mem::ManuallyDrop::new($it);
                                let l0 = it.len();
                                let mut y = 0usize;
                                let mut kept: Vec<Zst> = Vec::new();
                                for w in word.iter() {
                                    let item = if *w == b'n' {
                                        it.next()
                                    } else if *w == b'b' {
                                        it.next_back()
                                    } else {
                                        continue;
                                    };
                                    if let Some(t) = item {
                                        y += 1;
                                        $keep(&mut kept, t);
                                    }
                                }
                                let l1 = it.len();
                                if l0 - y != l1 {
                                    y = usize::MAX;
                                }
                                if !forget {
                                    drop(std::mem::ManuallyDrop::into_inner(it));
                                }
                                (l0, y, kept)
                            }};
                        }
                        match op {
                            Op::Drain => walk!(with_range!(rs, |r| b.drain(r)), |k: &mut Vec<Zst>, t: Zst| k.push(t)),
                            Op::Iter | Op::Range => walk!(with_range!(rs, |r| b.range(r)), |_k: &mut Vec<Zst>, _t: &Zst| {}),
                            _ => walk!(with_range!(rs, |r| b.range_mut(r)), |_k: &mut Vec<Zst>, _t: &mut Zst| {}),
                        }
                    });
                    self.allocs = 0; // the harness collects drained items in a Vec inside the window
                    if let Some((l0, y, kept)) = r {
                        let want_y = st.word.iter().filter(|w| **w == b'n' || **w == b'b').count().min(sel);
                        if l0 != sel || y != want_y {
                            self.fail(cls::ZST, format!("{} over {} selected elements: len() {l0}, yielded {y} (expected {want_y})", op.name(), sel));
                        }
                        self.hand.extend(kept);
                        if op == Op::Drain && forget {
                            // leaked drain (C10): the buffer may have lost anything, but it must not
                            // claim more elements than still exist
                            self.stats.forgets += 1;
                            self.forgot = true;
                            let (fstart, fsize) = b.verif_layout();
                            if fsize > N || fstart >= N {
                                self.fail(cls::FORGET | cls::ZST, format!("after leaking the drain the buffer is corrupt: front position {fstart}, length {fsize}, capacity {N}"));
                            }
                            let obs = b.len();
                            self.len[x] = obs;
                            let live = CREATED.with(|c| c.get()).saturating_sub(DESTROYED.with(|c| c.get()) + self.leaked);
                            let claimed = (self.len[0] + self.len[1] + self.hand.len()) as u64 + if x == 0 { 0 } else { 0 };
                            let other = self.len[1 - x] as u64;
                            let _ = other;
                            if claimed > live {
                                self.fail(cls::FORGET | cls::ZST, format!("after leaking the drain the buffer holds {obs} elements and the caller {}, but only {live} elements exist (some will be destroyed twice)", self.hand.len()));
                            } else {
                                self.leaked += live - claimed;
                            }
                        } else if op == Op::Drain {
                            self.len[x] = len - sel;
                        }
                    }
                }
                Op::GetMut | Op::Index | Op::NthBackMut => {
                    let a = st.a;
                    let op = st.op;
                    let expect_panic = op == Op::Index && a >= len;
                    if let Some(r) = self.call(expect_panic, || match op {
                        Op::GetMut => b.get_mut(a).is_some() && b.get(a).is_some(),
                        Op::NthBackMut => b.nth_back_mut(a).is_some() && b.nth_back(a).is_some(),
                        _ => {
                            let _z: &Zst = &b[a];
                            true
                        }
                    }) {
                        if r != (a < len) {
                            self.fail(cls::ZST, format!("{}({a}) at len {len} is {}", op.name(), if r { "Some" } else { "None" }));
                        }
                    }
                }
                Op::ToVec => {
                    may_alloc = true;
                    #[cfg(feature = "alloc")]
                    if let Some(v) = self.call(false, || b.to_vec()) {
                        if v.len() != len {
                            self.fail(cls::ZST, format!("to_vec() has {} elements at len {len}", v.len()));
                        }
                    }
                }
                Op::CloneTo => {
                    may_alloc = true;
                    if let Some(nb) = self.call(false, || Box::new(b.clone())) {
                        let old = self.bufs[y].replace(nb).unwrap();
                        let _ = self.call(false, move || drop(old));
                        self.len[y] = len;
                    }
                }
                Op::CloneFrom => {
                    let mut by = self.bufs[y].take().unwrap();
                    let byr: &mut CircularBuffer<N, Zst> = &mut by;
                    if self.call(false, || byr.clone_from(b)).is_some() {
                        self.len[y] = len;
                    } else if self.user_faulted {
                        self.len[y] = byr.len();
                    }
                    self.bufs[y] = Some(by);
                }
                Op::CmpBufs => {
                    let other = self.bufs[y].take().unwrap();
                    let o: &CircularBuffer<N, Zst> = &other;
                    let ly = self.len[y];
                    if let Some((eq, ord, h1, h2)) = self.call(false, || {
                        let mut h1 = crate::elem::RecHasher::new();
                        let mut h2 = crate::elem::RecHasher::new();
                        b.hash(&mut h1);
                        o.hash(&mut h2);
                        (*b == *o, (*b).cmp(o), h1.finish(), h2.finish())
                    }) {
                        if eq != (len == ly) || ord != len.cmp(&ly) || (len == ly && h1 != h2) {
                            self.fail(cls::ZST | cls::CMP, format!("comparison of buffers with {len} and {ly} elements: eq {eq}, cmp {ord:?}, hashes equal {}", h1 == h2));
                        }
                    }
                    self.bufs[y] = Some(other);
                    // equality with slices / arrays of a type that never compares equal
                    if self.fail.is_none() && len <= 4 {
                        let sl: Vec<ZNe> = (0..len).map(|_| ZNe).collect();
                        if let Some((e1, e2)) = self.call(false, || (*b == sl[..], *b == &sl[..])) {
                            self.allocs = 0;
                            if e1 != (len == 0) || e2 != (len == 0) {
                                self.fail(cls::ZST | cls::CMP, format!("buffer of {len} zero-sized elements == slice of {len} never-equal elements gave {e1}/{e2}"));
                            }
                        }
                    }
                }
                Op::DebugFmt => {
                    let mut hw = crate::deque_sess::HookWriter(String::new());
                    if self.call(false, || write!(hw, "{:?}", b)).is_some() {
                        let want = format!("{:?}", (0..len).map(|_| "Z").collect::<Vec<_>>()).replace('"', "");
                        if hw.0 != want {
                            self.fail(cls::ZST, format!("Debug printed {} for {len} elements", hw.0));
                        }
                    }
                }
                Op::FromArray => {
                    may_alloc = true;
                    let k = st.vals.len().min(4);
                    let r = self.call(false, || -> Box<CircularBuffer<N, Zst>> {
                        Box::new(match k {
                            0 => CircularBuffer::from([] as [Zst; 0]),
                            1 => CircularBuffer::from([Zst::new()]),
                            2 => CircularBuffer::from([Zst::new(), Zst::new()]),
                            3 => CircularBuffer::from([Zst::new(), Zst::new(), Zst::new()]),
                            _ => CircularBuffer::from([Zst::new(), Zst::new(), Zst::new(), Zst::new()]),
                        })
                    });
                    if let Some(nb) = r {
                        let old = self.bufs[y].replace(nb).unwrap();
                        let _ = self.call(false, move || drop(old));
                        self.len[y] = k.min(N);
                    }
                }
                Op::DropHand => {
                    self.hand.pop();
                }
                Op::Fill => {
                    may_alloc = true; // the two documented panics below allocate their payloads
                    // a completely full buffer of capacity N can only be built from an array of
                    // N unit values; the single-element insertions must behave as on any full buffer
                    let r = self.call(false, || {
                        let mut u: CircularBuffer<N, ()> = CircularBuffer::from([(); N]);
                        let a = (u.len() == N, u.is_full(), u.push_back(()).is_some(), u.len() == N, u.push_front(()).is_some(), u.len() == N);
                        let t = (u.try_push_back(()).is_err(), u.try_push_front(()).is_err(), u.len() == N, u.pop_back().is_some(), u.len() == N - 1, u.try_push_front(()).is_ok(), u.is_full());
                        // appending to a full buffer keeps it full; bounds one past usize::MAX
                        // must still be rejected (documented panic), not clamped
                        u.extend_from_slice(&[(), ()]);
                        u.extend([(), ()]);
                        let e = u.len() == N && u.is_full();
                        let p1 = N != usize::MAX || std::panic::catch_unwind(std::panic::AssertUnwindSafe(|| u.range(..=usize::MAX).len())).is_err();
                        let p2 = N != usize::MAX
                            || std::panic::catch_unwind(std::panic::AssertUnwindSafe(|| u.range((std::ops::Bound::Excluded(usize::MAX), std::ops::Bound::Unbounded)).len())).is_err();
                        let g = u.get(usize::MAX).is_none() && u.nth_back(usize::MAX).is_none() && u.range(N - 1..).len() == 1;
                        // a unit buffer whose few elements wrap around the end of the array: jumps on
                        // the borrowing, owning and draining iterators of an element type without
                        // drop glue
                        let mk = || {
                            let mut w: CircularBuffer<N, ()> = CircularBuffer::new();
                            w.push_front(());
                            w.push_front(());
                            w.push_back(());
                            w.push_back(());
                            w.push_back(());
                            w
                        };
                        let w = mk();
                        let l = w.len();
                        let j = l == N.min(5)
                            && w.iter().nth(l - 1).is_some()
                            && w.iter().nth(l).is_none()
                            && w.iter().nth_back(l - 1).is_some()
                            && w.iter().skip(l - 1).count() == 1
                            && w.iter().rev().skip(1).count() == l - 1
                            && mk().into_iter().nth(l - 1).is_some()
                            && mk().into_iter().skip(l - 1).count() == 1
                            && mk().into_iter().nth_back(l - 1).is_some()
                            && mk().into_iter().last().is_some()
                            && mk().into_iter().count() == l
                            && {
                                let mut i = mk().into_iter();
                                i.nth(l).is_none() && i.len() == 0
                            }
                            && {
                                let mut d = mk();
                                let k = d.drain(..).nth(l - 1).is_some();
                                k && d.is_empty()
                            };
                        (a, (t.0, t.1, t.2, t.3, t.4, t.5, t.6 && e && p1 && p2 && g && j))
                    });
                    if let Some((a, t)) = r {
                        if a != (true, true, true, true, true, true) || t != (true, true, true, true, true, true, true) {
                            let views = if a == (true, true, true, true, true, true) && (t.0, t.1, t.2, t.3, t.4, t.5) == (true, true, true, true, true, true) { cls::VIEW | cls::ITER | cls::PANIC_SPEC } else { 0 };
                            self.fail(cls::ZST | cls::RET | cls::IDENT | views, format!("full buffer of {N} unit elements: push/try_push/pop gave {a:?} {t:?}"));
                        }
                    }
                }
                _ => self.fail(cls::HARNESS, format!("op {} is not part of the zst scenario", st.op.name())),
            }
        }
        self.bufs[x] = Some(bx);
        if st.op == Op::IntoIter || st.op == Op::DropBuf || st.op == Op::New {
            // handled outside the borrow: consumes / replaces the buffer
            self.fail = None;
            let word = st.word.clone();
            let buf = self.bufs[x].take().unwrap();
            self.bufs[x] = Some(Box::new(CircularBuffer::new()));
            if st.op == Op::IntoIter {
                let r = self.call(false, move || {
                    let mut it = std::mem::ManuallyDrop::new((*buf).into_iter());
                    let l0 = it.len();
                    let mut kept = Vec::new();
                    for w in word.iter() {
                        let item = if *w == b'n' {
                            it.next()
                        } else if *w == b'b' {
                            it.next_back()
                        } else {
                            None
                        };
                        if let Some(t) = item {
                            kept.push(t);
                        }
                    }
                    let l1 = it.len();
                    drop(std::mem::ManuallyDrop::into_inner(it));
                    (l0, l1, kept)
                });
                self.allocs = 0;
                may_alloc = true;
                if let Some((l0, l1, kept)) = r {
                    if l0 != len || l1 != len - kept.len() {
                        self.fail(cls::ZST, format!("into_iter at len {len}: len() {l0} then {l1} after {} items", kept.len()));
                    }
                    self.hand.extend(kept);
                }
            } else {
                may_alloc = true;
                let _ = self.call(false, move || drop(buf));
            }
            self.len[x] = 0;
        }
        // ---- post-step: count model
        if self.fail.is_none() {
            for bi in 0..2 {
                let b = self.bufs[bi].as_ref().unwrap();
                let l = self.len[bi];
                let (s0, s1) = b.as_slices();
                if b.len() != l || b.is_empty() != (l == 0) || b.is_full() != (l == N) || b.iter().len() != l || s0.len() + s1.len() != l || b.capacity() != N {
                    let (bl, il) = (b.len(), b.iter().len());
                    self.fail(cls::ZST | cls::CONTENTS, format!("buffer {bi}: len() {bl}, iter().len() {il}, slices {}+{}; count model says {l} (N = {N})", s0.len(), s1.len()));
                    break;
                }
                let inner_ok = (0..l.min(4)).all(|k| b.get(k).is_some() && b.nth_front(k).is_some() && b.nth_back(k).is_some() && b.range(k..l).len() == l - k);
                if !inner_ok || b.front().is_some() != (l > 0) || b.back().is_some() != (l > 0) || b.get(l).is_some() || (l > 0 && b.get(l - 1).is_none()) || b.nth_back(l).is_some() {
                    self.fail(cls::ZST, format!("buffer {bi}: accessors disagree with count {l} (N = {N})"));
                    break;
                }
            }
        }
        CLONE_BOMB.with(|c| c.set(0));
        if self.fail.is_none() {
            let (c, d) = (CREATED.with(|c| c.get()), DESTROYED.with(|c| c.get()));
            let live = (self.len[0] + self.len[1] + self.hand.len()) as u64;
            if c != d + self.leaked + live {
                let own = match st.op {
                    _ if self.user_faulted => cls::USER_FAULT,
                    Op::PushBack | Op::PushFront | Op::TryPushBack | Op::TryPushFront => cls::RET | cls::IDENT,
                    Op::FromArray | Op::CloneTo | Op::CloneFrom | Op::IntoIter | Op::ToVec => cls::CTOR,
                    Op::Drain => cls::DRAIN,
                    _ => 0,
                };
                self.fail(cls::ZST | cls::LEDGER | own, format!("{c} elements created, {d} destructor runs, but {live} elements are in the buffers or with the caller"));
            }
        }
        if self.fail.is_none() && !may_alloc && self.allocs > 0 && !self.panicked && !self.user_faulted {
            self.fail(cls::ALLOC, format!("{} performed {} heap allocation(s) of its own (ZST, N = {N})", st.op.name(), self.allocs));
        }
        let _ = write!(self.trace.line(), " p={} A={} B={} h={}", self.panicked as u8, self.len[0], self.len[1], self.hand.len());
        self.trace.commit();
        self.stats.cell([N as u64, (start.min(3) as u64) | (((N - start).min(3) as u64) << 8), size.min(8) as u64, st.op as u64, (st.a.min(9) as u64) | ((st.vals.len() as u64) << 8), 77]);
        while self.hand.len() > 8 {
            self.hand.pop();
        }
    }
}

const ZOPS: &[Op] = &[
    Op::PushBack, Op::PushFront, Op::TryPushBack, Op::TryPushFront, Op::PopBack, Op::PopFront, Op::Remove, Op::SwapRemoveBack, Op::SwapRemoveFront, Op::Swap, Op::TruncateBack,
    Op::TruncateFront, Op::Clear, Op::ExtendFromSlice, Op::Extend, Op::MakeContiguous, Op::Drain, Op::Iter, Op::Range, Op::IterMut, Op::RangeMut, Op::GetMut, Op::Index,
    Op::NthBackMut, Op::ToVec, Op::CloneTo, Op::CloneFrom, Op::CmpBufs, Op::DebugFmt, Op::FromArray, Op::IntoIter, Op::DropBuf, Op::Fill,
];

pub fn gen_zst(seed: u64, run: u64) -> Script {
    gen_zst_for(seed, run, false)
}

/// `forget_focus`: every run leaks a drain (C10 for zero-sized elements)
pub fn gen_zst_for(seed: u64, run: u64, forget_focus: bool) -> Script {
    let mut rng = Rng::new(mix(&[seed, 3, run]));
    // stratum: capacity × front position class × initial length × focus op
    let nidx = (run % ZST_NS.len() as u64) as usize;
    let pos = ((run / ZST_NS.len() as u64) % 7) as usize; // 0: start 0; 1-3: start N-1..N-3; 4-6: start 1..3
    let s0 = ((run / 70) % 5) as usize;
    let focus = if forget_focus { Op::Drain } else { ZOPS[((run / 350) % ZOPS.len() as u64) as usize] };
    let n = ZST_NS[nidx];
    let mut steps = Vec::new();
    let mut len = [0usize; 2];
    match pos {
        1..=3 => {
            for _ in 0..pos {
                steps.push(Step::new(Op::PushFront));
                steps.push(Step::new(Op::PopBack));
            }
        }
        4..=6 => {
            for _ in 0..(pos - 3) {
                steps.push(Step::new(Op::PushBack));
                steps.push(Step::new(Op::PopFront));
            }
        }
        _ => {}
    }
    for k in 0..s0.min(n) {
        steps.push(Step::new(if (k + pos) % 3 == 0 { Op::PushFront } else { Op::PushBack }));
        len[0] += 1;
    }
    let tail = *rng.pick(&[0usize, 1, 2, 3, 5, 8, 12, 20]);
    for t in 0..=tail {
        let op = if t == 0 { focus } else if forget_focus && rng.below(3) == 0 { Op::Drain } else { *rng.pick(ZOPS) };
        let x = if t == 0 { 0 } else { (rng.below(4) == 0) as u8 };
        let l = len[x as usize];
        let mut st = Step::new(op).buf(x);
        let idx = |rng: &mut Rng| -> usize {
            let c = [0, 1, l.wrapping_sub(1), l, l + 1, n - 1, n, usize::MAX, usize::MAX - 1, n / 2];
            if rng.below(3) == 0 {
                *rng.pick(&c)
            } else {
                rng.below(l as u64 + 1) as usize
            }
        };
        match op {
            Op::Remove | Op::SwapRemoveBack | Op::SwapRemoveFront | Op::TruncateBack | Op::TruncateFront | Op::GetMut | Op::Index | Op::NthBackMut => st.a = idx(&mut rng),
            Op::Swap => {
                st.a = idx(&mut rng);
                st.b = idx(&mut rng);
            }
            Op::ExtendFromSlice | Op::Extend | Op::FromArray => {
                st.vals = vec![0; rng.below(5) as usize];
                if op == Op::ExtendFromSlice && rng.below(3) == 0 {
                    st.b = 1 + rng.below(4) as usize;
                }
            }
            Op::CloneTo | Op::CloneFrom | Op::ToVec => {
                if rng.below(3) == 0 {
                    st.b = 1 + rng.below(l as u64 + 1) as usize;
                }
            }
            Op::Drain | Op::Range | Op::RangeMut | Op::Iter | Op::IterMut | Op::IntoIter => {
                st.rs = crate::gen::range_arg(&mut rng, l, n.min(1 << 20), 15);
                if op == Op::Drain && (rng.below(4) == 0 || (forget_focus && (t == 0 || rng.below(2) == 0))) {
                    st.c = 1;
                }
                let wl = rng.below(l as u64 + 3) as usize;
                st.word = (0..wl).map(|_| if rng.below(2) == 0 { b'n' } else { b'b' }).collect();
            }
            Op::PushBack | Op::PushFront | Op::TryPushBack | Op::TryPushFront => st.c = rng.below(2) as usize,
            _ => {}
        }
        // keep lengths small: the count model tracks them approximately for argument choice only
        match op {
            Op::PushBack | Op::PushFront | Op::TryPushBack | Op::TryPushFront => len[x as usize] = (l + 1).min(n),
            Op::PopBack | Op::PopFront => len[x as usize] = l.saturating_sub(1),
            Op::Clear | Op::DropBuf | Op::IntoIter => len[x as usize] = 0,
            Op::ExtendFromSlice | Op::Extend => len[x as usize] = (l + st.vals.len()).min(n),
            Op::TruncateBack | Op::TruncateFront => len[x as usize] = l.min(st.a),
            _ => {}
        }
        steps.push(st);
        if len[x as usize] > 10 {
            steps.push(Step::new(Op::TruncateFront).buf(x).a(3));
            len[x as usize] = 3;
        }
    }
    Script {
        scenario: Scenario::Zst,
        n: nidx,
        origin: format!("seed={} prop=C19 run={} N={} frontpos={} len={} focus={}", seed, run, n, pos, s0, focus.name()),
        garbage: Garbage::None,
        garbage_seed: 0,
        boxed: false,
        transport: 0,
        steps,
    }
}
