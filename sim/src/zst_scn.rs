//! zst scenario (placeholder until implemented)
use crate::exec::Outcome;
use crate::script::Script;
pub fn run(_s: &Script, _k: bool) -> Outcome { crate::harness_fail("zst scenario not built".into()) }
pub fn gen_zst(_seed: u64, _run: u64) -> Script { unimplemented!() }
