//! Script generation: a pure function of (seed, profile, run index). Uses only a length-level
//! model of the buffers (never the implementation), so a script can be regenerated and dumped
//! without executing it.

use crate::elem::FaultKind;
use crate::rng::{mix, Rng};
use crate::script::{Garbage, Op, RangeSpec, Scenario, Script, Step, BOUND_EXCL, BOUND_INCL, BOUND_UNB};

pub const DEQUE_NS: [usize; 9] = [0, 1, 2, 3, 4, 5, 6, 8, 11];

#[derive(Clone, Copy, PartialEq, Eq, Debug)]
pub enum Family {
    None,
    Drop,
    User,
    Forget,
    /// each run draws one of None/Drop/User/Forget (C18: "including under injected panics")
    Any,
}

pub struct Profile {
    pub prop: &'static str,
    pub focus: Vec<Op>,
    pub family: Family,
    /// probability (percent) that a non-focus tail step is drawn from the focus list
    pub focus_bias: u32,
    pub junk_args: u32,
    /// restrict to these capacities (empty: all)
    pub only_n: Vec<usize>,
}

use Op::*;

const MUTATORS: &[Op] = &[
    PushBack, PushFront, TryPushBack, TryPushFront, PopBack, PopFront, Remove, Swap, SwapRemoveBack, SwapRemoveFront, TruncateBack, TruncateFront, Clear, Fill,
    FillWith, FillSpare, FillSpareWith, ExtendFromSlice, Extend, MakeContiguous, Drain, GetMut, NthFrontMut, NthBackMut, FrontMut, BackMut, IndexMut, AsMutSlices,
    IterMut, RangeMut,
];
const OWNERSHIP: &[Op] = &[
    PushBack, PushFront, TryPushBack, PopBack, PopFront, Remove, SwapRemoveBack, SwapRemoveFront, TruncateBack, TruncateFront, Clear, Fill, FillWith, FillSpare,
    FillSpareWith, ExtendFromSlice, Extend, Drain, IntoIter, FromArray, FromIter, CloneTo, CloneFrom, DropBuf, New, GetMut, ToVec,
];
const DESTROYERS: &[Op] = &[TruncateBack, TruncateFront, Clear, Fill, FillWith, ExtendFromSlice, Extend, CloneFrom, FromArray, FromIter, Drain, IntoIter, DropBuf, New, CloneTo];
const USERCODE: &[Op] = &[ExtendFromSlice, Fill, FillSpare, FillWith, FillSpareWith, Extend, FromIter, CloneTo, CloneFrom, ToVec, IntoIter, CmpBufs, EqSlice, DebugFmt, CrossCmp];
const VIEWS: &[Op] = &[GetMut, NthFrontMut, NthBackMut, FrontMut, BackMut, IndexMut, AsMutSlices, IterMut, RangeMut, MakeContiguous, Index, ToVec, DebugFmt, Iter, Range];
const ITERS: &[Op] = &[Iter, Range, IterMut, RangeMut, IntoIter, IterDefault];
const PANICKY: &[Op] = &[Range, RangeMut, Drain, Swap, Index, IndexMut, Remove, SwapRemoveBack, SwapRemoveFront, TruncateBack, TruncateFront, GetMut, NthBackMut, TryPushBack, TryPushFront, Fill, FillSpare, FillWith, ExtendFromSlice, Clear];
const CTORS: &[Op] = &[New, FromArray, FromIter, CloneTo, CloneFrom, ToVec, IntoIter, DropBuf];
const CMPS: &[Op] = &[CmpBufs, EqSlice, DebugFmt, CrossCmp];
const O1: &[Op] = &[PushBack, PushFront, TryPushBack, TryPushFront, PopBack, PopFront, Swap, SwapRemoveBack, SwapRemoveFront, GetMut, NthBackMut, FrontMut, BackMut, AsMutSlices, TruncateBack, TruncateFront, Clear, Remove, Drain, MakeContiguous, Index, IndexMut];

fn all_deque_ops() -> Vec<Op> {
    let mut v: Vec<Op> = Vec::new();
    for l in [MUTATORS, OWNERSHIP, VIEWS, ITERS, CTORS, CMPS] {
        for o in l {
            if !v.contains(o) {
                v.push(*o);
            }
        }
    }
    v
}

pub fn profile(prop: &str) -> Option<Profile> {
    // "<ID>huge": capacity 160 only (with 128-byte elements the array is 20 KiB)
    if prop.len() == 7 && prop.ends_with("huge") {
        let mut q = profile(&prop[..3])?;
        q.only_n = vec![160];
        q.prop = match &prop[..3] {
            "C01" => "C01huge",
            "C03" => "C03huge",
            "C07" => "C07huge",
            "C09" => "C09huge",
            "C17" => "C17huge",
            "C20" => "C20huge",
            _ => return None,
        };
        return Some(q);
    }
    // "<ID>big": the profile of <ID> at capacity 40 only (size thresholds inside the crate)
    if prop.len() == 6 && prop.ends_with("big") && prop != "C17big" {
        let mut q = profile(&prop[..3])?;
        q.only_n = vec![40];
        q.prop = match &prop[..3] {
            "C01" => "C01big",
            "C03" => "C03big",
            "C05" => "C05big",
            "C06" => "C06big",
            "C07" => "C07big",
            "C08" => "C08big",
            "C09" => "C09big",
            "C10" => "C10big",
            "C12" => "C12big",
            "C13" => "C13big",
            "C20" => "C20big",
            _ => return None,
        };
        return Some(q);
    }
    let p = |prop: &'static str, focus: &[Op], family: Family, focus_bias: u32, junk: u32| Profile { prop, focus: focus.to_vec(), family, focus_bias, junk_args: junk, only_n: Vec::new() };
    Some(match prop {
        "C01" => p("C01", MUTATORS, Family::None, 60, 25),
        "C02" => p("C02", &[PushBack, PushFront, TryPushBack, TryPushFront], Family::None, 50, 10),
        "C03" => p("C03", OWNERSHIP, Family::None, 70, 15),
        "C04" => p("C04", &all_deque_ops(), Family::None, 50, 20),
        // C04 under faults: stale copies touched while unwinding (second destructor runs, ...)
        "C04f" => p("C04f", &all_deque_ops(), Family::Any, 50, 15),
        // ... with the destructor-panic family focused on the element-destroying operations
        "C04d" => p("C04d", DESTROYERS, Family::Drop, 60, 10),
        "C05" => p("C05", DESTROYERS, Family::Drop, 60, 10),
        "C06" => p("C06", USERCODE, Family::User, 60, 10),
        "C07" => p("C07", VIEWS, Family::None, 60, 30),
        "C08" => p("C08", ITERS, Family::None, 60, 15),
        "C09" => p("C09", &[Drain], Family::None, 40, 10),
        "C10" => p("C10", &[Drain], Family::Forget, 30, 5),
        "C11" => p("C11", PANICKY, Family::None, 60, 70),
        "C12" => p("C12", CTORS, Family::None, 60, 15),
        "C13" => p("C13", CMPS, Family::None, 50, 10),
        "C17" => p("C17", &all_deque_ops(), Family::None, 50, 15),
        "C18" => p("C18", &all_deque_ops(), Family::Any, 50, 20),
        "C20" => p("C20", O1, Family::None, 70, 20),
        // a capacity large enough for size thresholds (e.g. "stage in a Vec when more than 256
        // bytes have to move") to be crossed with 16-byte elements
        "C17big" => {
            let mut q = p("C17big", &[MakeContiguous, Remove, Drain, ExtendFromSlice, Extend, CloneFrom, CloneTo, CmpBufs, CrossCmp, DebugFmt, Swap, SwapRemoveBack, SwapRemoveFront, TruncateFront, TruncateBack, IterMut, Range, Fill, FromIter], Family::None, 80, 10);
            q.only_n = vec![40];
            q
        }
        _ => return None,
    })
}

/// (N, start r, size s) for every layout with N in DEQUE_NS: 317 entries.
pub fn layouts() -> Vec<(usize, usize, usize)> {
    layouts_of(&DEQUE_NS)
}

pub fn layouts_of(ns: &[usize]) -> Vec<(usize, usize, usize)> {
    let mut v = Vec::new();
    for &n in ns.iter() {
        for r in 0..n.max(1) {
            for s in 0..=n {
                v.push((n, r, s));
            }
        }
    }
    v
}

pub struct GenState {
    pub n: usize,
    pub len: [usize; 2],
    pub hand: usize,
}

fn idx_arg(rng: &mut Rng, len: usize, n: usize, junk: u32) -> usize {
    if rng.below(100) < junk as u64 {
        let c = [0, 1, len.wrapping_sub(1), len, len + 1, n.wrapping_sub(1), n, n + 1, usize::MAX, usize::MAX - 1];
        *rng.pick(&c)
    } else if len == 0 {
        rng.below(2) as usize
    } else {
        match rng.below(5) {
            0 => 0,
            1 => len - 1,
            _ => rng.below(len as u64) as usize,
        }
    }
}

fn len_arg(rng: &mut Rng, free: usize, n: usize) -> usize {
    let c = [0, 1, free.wrapping_sub(1), free, free + 1, n.wrapping_sub(1), n, n + 1, 2 * n + 1, 3 * n + 2];
    let k = if rng.below(10) < 6 { *rng.pick(&c) } else { rng.below(2 * n as u64 + 2) as usize };
    if k > 3 * n + 2 {
        0
    } else {
        k
    }
}

fn vals_fn(rng: &mut Rng, k: usize) -> Vec<u32> {
    (0..k).map(|_| rng.below(3) as u32).collect()
}

macro_rules! vals {
    ($rng:expr, $k:expr) => {{
        let k = $k;
        vals_fn($rng, k)
    }};
}

pub fn range_arg(rng: &mut Rng, len: usize, n: usize, junk: u32) -> RangeSpec {
    let junky = rng.below(100) < junk as u64;
    let (a, b) = if junky {
        (idx_arg(rng, len, n, 100), idx_arg(rng, len, n, 100))
    } else {
        let a = rng.below(len as u64 + 1) as usize;
        let b = a + rng.below((len - a) as u64 + 1) as usize;
        match rng.below(6) {
            0 => (0, len),
            1 => (0, b),
            2 => (a, len),
            3 => (a, a),
            _ => (a, b),
        }
    };
    // choose a form that denotes (a, b) when possible
    let form = rng.below(10);
    let raw = rng.below(8) == 0;
    let mut rs = match form {
        0 | 1 | 2 => RangeSpec { sk: BOUND_INCL, sv: a, ek: BOUND_EXCL, ev: b, raw },
        3 => {
            if b > 0 && !junky {
                RangeSpec { sk: BOUND_INCL, sv: a, ek: BOUND_INCL, ev: b - 1, raw }
            } else {
                RangeSpec { sk: BOUND_INCL, sv: a, ek: BOUND_INCL, ev: b, raw }
            }
        }
        4 => RangeSpec { sk: BOUND_UNB, sv: 0, ek: BOUND_EXCL, ev: b, raw },
        5 => {
            if b > 0 && !junky {
                RangeSpec { sk: BOUND_UNB, sv: 0, ek: BOUND_INCL, ev: b - 1, raw }
            } else {
                RangeSpec { sk: BOUND_UNB, sv: 0, ek: BOUND_INCL, ev: b, raw }
            }
        }
        6 => RangeSpec { sk: BOUND_INCL, sv: a, ek: BOUND_UNB, ev: 0, raw },
        7 => RangeSpec { sk: BOUND_UNB, sv: 0, ek: BOUND_UNB, ev: 0, raw },
        8 => {
            // excluded start (tuple form only)
            if a > 0 && !junky {
                RangeSpec { sk: BOUND_EXCL, sv: a - 1, ek: BOUND_EXCL, ev: b, raw: true }
            } else {
                RangeSpec { sk: BOUND_EXCL, sv: a, ek: BOUND_EXCL, ev: b, raw: true }
            }
        }
        _ => RangeSpec { sk: BOUND_EXCL, sv: a, ek: if rng.below(2) == 0 { BOUND_INCL } else { BOUND_UNB }, ev: b, raw: true },
    };
    if rs.sk == BOUND_EXCL {
        rs.raw = true;
    }
    rs
}

fn word(rng: &mut Rng, sel: usize, letters: &[u8], weights: &[u32]) -> Vec<u8> {
    let l = rng.below(sel as u64 + 3) as usize;
    match rng.below(10) {
        // long one-directional consumption (step-count thresholds)
        0 => vec![b'n'; l],
        1 => vec![b'b'; l],
        // a jump (nth / nth_back, in range, zero, or far beyond the end) somewhere in the word
        2 | 3 => {
            let mut w: Vec<u8> = (0..l).map(|_| letters[rng.weighted(weights)]).collect();
            let j = *rng.pick(b"tTuUoOmMhHgG");
            let at = rng.below(w.len() as u64 + 1) as usize;
            w.insert(at, j);
            w
        }
        _ => (0..l).map(|_| letters[rng.weighted(weights)]).collect(),
    }
}

impl GenState {
    /// Draws concrete arguments for `op` on buffer `x`.
    pub fn step(&self, rng: &mut Rng, op: Op, x: u8, junk: u32) -> Step {
        let n = self.n;
        let len = self.len[x as usize];
        let free = n - len.min(n);
        let mut st = Step::new(op).buf(x);
        let src = if self.hand > 0 && rng.below(3) == 0 { 1 + rng.below(8) as usize } else { 0 };
        match op {
            PushBack | PushFront | TryPushBack | TryPushFront | Fill | FillSpare => {
                st.vals = vals!(rng, 1);
                st.c = src;
            }
            PopBack | PopFront | Clear | IterDefault | ToVec | CmpBufs | CloneTo | CloneFrom => {}
            Remove | SwapRemoveBack | SwapRemoveFront | TruncateBack | TruncateFront | Index => st.a = idx_arg(rng, len, n, junk),
            Swap => {
                st.a = idx_arg(rng, len, n, junk);
                st.b = idx_arg(rng, len, n, junk);
            }
            FillWith | FillSpareWith => st.vals = vals!(rng, 1 + rng.below(3) as usize),
            ExtendFromSlice => st.vals = vals!(rng, len_arg(rng, free, n)),
            Extend => {
                st.vals = vals!(rng, len_arg(rng, free, n));
                st.b = rng.below(7) as usize;
                if rng.below(5) == 0 {
                    // as one half of a pair (tuple `Extend`)
                    st.c = 3;
                }
            }
            MakeContiguous => {
                st.a = rng.below(8) as usize;
                st.b = rng.below(4) as usize;
            }
            Drain => {
                st.rs = range_arg(rng, len, n, junk);
                let sel = st.rs.resolve(len).map(|(a, b)| b - a).unwrap_or(0);
                st.word = word(rng, sel, b"nblsdrR", &[10, 10, 2, 1, 1, 1, 1]);
                st.c = 0;
            }
            GetMut | NthFrontMut | NthBackMut | IndexMut | AsMutSlices => {
                st.a = idx_arg(rng, len, n, junk);
                st.b = rng.below(3) as usize;
                st.vals = vals!(rng, 1);
                st.c = src;
            }
            FrontMut | BackMut => {
                st.b = rng.below(3) as usize;
                st.vals = vals!(rng, 1);
                st.c = src;
            }
            IterMut | RangeMut => {
                st.rs = range_arg(rng, len, n, junk);
                let sel = if op == IterMut { len } else { st.rs.resolve(len).map(|(a, b)| b - a).unwrap_or(0) };
                st.word = word(rng, sel, b"nblsdrR", &[10, 10, 2, 2, 1, 1, 1]);
                st.a = rng.weighted(&[4, 1, 1]);
                st.b = rng.below(2) as usize;
                st.c = rng.below(3) as usize;
            }
            Iter | Range => {
                st.rs = range_arg(rng, len, n, junk);
                let sel = if op == Iter { len } else { st.rs.resolve(len).map(|(a, b)| b - a).unwrap_or(0) };
                st.word = word(rng, sel, b"nblscdrR", &[10, 10, 3, 2, 2, 1, 1, 1]);
                st.a = rng.weighted(&[4, 1, 1]);
            }
            IntoIter => {
                st.word = word(rng, len, b"nblscdrR", &[10, 10, 2, 2, 1, 1, 1, 1]);
                st.c = rng.below(4) as usize;
            }
            New | DropBuf => st.b = rng.below(3) as usize,
            FromArray => {
                let k = len_arg(rng, n, n).min(crate::deque_cmp::MAX_ARRAY);
                st.vals = vals!(rng, k);
            }
            FromIter => {
                st.vals = vals!(rng, len_arg(rng, n, n));
                st.b = rng.below(6) as usize;
            }
            EqSlice => {
                st.a = rng.below(8) as usize;
                st.b = rng.below(6) as usize;
                st.c = rng.weighted(&[5, 3, 1, 1, 1]);
                st.vals = vals!(rng, rng.below(n as u64 + 2) as usize);
            }
            DebugFmt => st.b = rng.below(8) as usize,
            CrossCmp => {
                let m = if rng.below(3) == 0 { n } else { *rng.pick(&DEQUE_NS) };
                st.a = m + 16 * rng.below(8) as usize;
                st.b = rng.below(8) as usize;
                st.c = rng.weighted(&[6, 4, 1, 1, 1, 2]);
                st.vals = vals!(rng, rng.below(n as u64 + 2) as usize);
            }
            DropHand => st.a = rng.below(8) as usize,
            _ => {}
        }
        st
    }

    /// Length-level effect of a step (fault-free semantics).
    pub fn apply(&mut self, st: &Step) {
        let n = self.n;
        let x = (st.buf & 1) as usize;
        let len = self.len[x];
        let from_hand = st.c > 0 && self.hand > 0;
        match st.op {
            PushBack | PushFront => {
                if from_hand {
                    self.hand -= 1;
                }
                if n == 0 || len == n {
                    self.hand += 1;
                } else {
                    self.len[x] += 1;
                }
            }
            TryPushBack | TryPushFront => {
                if from_hand {
                    self.hand -= 1;
                }
                if len == n {
                    self.hand += 1;
                } else {
                    self.len[x] += 1;
                }
            }
            PopBack | PopFront => {
                if len > 0 {
                    self.len[x] -= 1;
                    self.hand += 1;
                }
            }
            Remove | SwapRemoveBack | SwapRemoveFront => {
                if st.a < len {
                    self.len[x] -= 1;
                    self.hand += 1;
                }
            }
            TruncateBack | TruncateFront => self.len[x] = len.min(st.a),
            Clear => self.len[x] = 0,
            Fill | FillSpare => {
                if from_hand {
                    self.hand -= 1;
                }
                self.len[x] = n;
            }
            FillWith | FillSpareWith => self.len[x] = n,
            ExtendFromSlice | Extend => self.len[x] = (len + st.vals.len()).min(n),
            Drain => {
                if let Ok((a, b)) = st.rs.resolve(len) {
                    let y = st.word.iter().filter(|w| **w == b'n' || **w == b'b').count().min(b - a);
                    self.hand += y;
                    if st.c % 2 == 1 {
                        self.len[x] = 0;
                    } else {
                        self.len[x] = len - (b - a);
                    }
                }
            }
            GetMut | NthFrontMut | NthBackMut | IndexMut | AsMutSlices | FrontMut | BackMut => {
                let valid = match st.op {
                    FrontMut | BackMut => len > 0,
                    _ => st.a < len,
                };
                if st.b % 3 == 2 && valid && !from_hand {
                    self.hand += 1;
                }
            }
            IntoIter => {
                let y = st.word.iter().filter(|w| **w == b'n' || **w == b'b').count().min(len);
                self.hand += y;
                self.len[x] = if st.c % 4 == 1 { len - y } else { 0 };
            }
            New | DropBuf => self.len[x] = 0,
            FromArray | FromIter => self.len[x] = st.vals.len().min(n),
            CloneTo | CloneFrom => self.len[1 - x] = len,
            DropHand => self.hand = self.hand.saturating_sub(1),
            _ => {}
        }
    }

    /// Estimated number of user-code calls of `kind` that the step makes (for fault placement).
    pub fn calls(&self, st: &Step, kind: FaultKind) -> usize {
        let n = self.n;
        let x = (st.buf & 1) as usize;
        let len = self.len[x];
        let k = st.vals.len();
        match kind {
            FaultKind::Drop => match st.op {
                TruncateBack | TruncateFront => len.saturating_sub(st.a),
                Clear | New | DropBuf | Fill | FillWith => len,
                ExtendFromSlice | Extend => {
                    if n == 0 {
                        if st.op == Extend {
                            k
                        } else {
                            0
                        }
                    } else {
                        (len + k).saturating_sub(n).min(len + k)
                    }
                }
                CloneFrom | CloneTo => self.len[1 - x],
                FromArray | FromIter => k.saturating_sub(n) + len,
                Drain => st.rs.resolve(len).map(|(a, b)| (b - a).saturating_sub(st.word.iter().filter(|w| **w == b'n' || **w == b'b').count())).unwrap_or(0),
                IntoIter => len.saturating_sub(st.word.iter().filter(|w| **w == b'n' || **w == b'b').count()),
                PushBack | PushFront => 0,
                _ => 0,
            },
            FaultKind::Clone => match st.op {
                ExtendFromSlice => k.min(n),
                Extend if st.b % 7 == 3 => k,
                Fill => n.saturating_sub(1),
                FillSpare => (n - len.min(n)).saturating_sub(1),
                CloneTo | CloneFrom | ToVec => len,
                IntoIter => len,
                _ => 0,
            },
            FaultKind::Closure => match st.op {
                FillWith => n,
                FillSpareWith => n - len.min(n),
                IntoIter if st.c % 4 >= 2 => len,
                _ => 0,
            },
            FaultKind::Iter => match st.op {
                Extend if st.b % 7 != 3 => k + 1,
                FromIter => k + 1,
                _ => 0,
            },
            FaultKind::Cmp => match st.op {
                CmpBufs => 2 * len + 2,
                EqSlice | CrossCmp => len + 1,
                DebugFmt => len,
                Iter | Range | IterMut | RangeMut | Drain | IntoIter => {
                    if st.word.contains(&b'd') {
                        len
                    } else {
                        0
                    }
                }
                _ => 0,
            },
        }
    }
}

fn user_kind_for(op: Op, st: &Step, rng: &mut Rng) -> FaultKind {
    match op {
        FillWith | FillSpareWith => FaultKind::Closure,
        Extend if st.b % 7 != 3 => FaultKind::Iter,
        FromIter => FaultKind::Iter,
        CmpBufs | EqSlice | DebugFmt | CrossCmp => FaultKind::Cmp,
        Iter | Range | IterMut | RangeMut => FaultKind::Cmp,
        IntoIter if st.c % 4 == 2 => FaultKind::Closure,
        IntoIter | Drain => {
            if rng.below(2) == 0 {
                FaultKind::Clone
            } else {
                FaultKind::Cmp
            }
        }
        _ => FaultKind::Clone,
    }
}

/// Generates the script of run `run` of profile `prof` under `seed`.
pub fn gen_deque(seed: u64, prof: &Profile, run: u64) -> Script {
    let pid = prof.prop.bytes().fold(0u64, |a, b| a * 131 + b as u64);
    let mut rng = Rng::new(mix(&[seed, 1, pid, run]));
    let lays: Vec<(usize, usize, usize)> = if prof.only_n.is_empty() { layouts() } else { layouts_of(&prof.only_n) };
    let nl = lays.len() as u64;
    let stratum = run % (nl * prof.focus.len() as u64);
    let (n, r, s) = lays[(stratum % nl) as usize];
    let focus = prof.focus[(stratum / nl) as usize % prof.focus.len()];
    let family = match prof.family {
        Family::Any => [Family::None, Family::Drop, Family::User, Family::Forget][rng.below(4) as usize],
        f => f,
    };

    let mut gs = GenState { n, len: [0, 0], hand: 0 };
    let mut steps: Vec<Step> = Vec::new();
    let push = |steps: &mut Vec<Step>, gs: &mut GenState, st: Step| {
        gs.apply(&st);
        steps.push(st);
    };

    // ---- layout prelude for buffer A (public API only)
    let style = rng.below(4);
    if n > 0 {
        match style {
            1 => {
                for _ in 0..((n - r) % n) {
                    push(&mut steps, &mut gs, Step::new(PushFront).vals(vals!(&mut rng, 1)));
                    push(&mut steps, &mut gs, Step::new(PopBack));
                }
                for _ in 0..s {
                    push(&mut steps, &mut gs, Step::new(PushBack).vals(vals!(&mut rng, 1)));
                }
            }
            2 if r + s <= n => {
                push(&mut steps, &mut gs, Step::new(ExtendFromSlice).vals(vals!(&mut rng, r + s)));
                push(&mut steps, &mut gs, Step::new(TruncateFront).a(s));
            }
            3 => {
                for _ in 0..r {
                    push(&mut steps, &mut gs, Step::new(TryPushBack).vals(vals!(&mut rng, 1)).c(1));
                    push(&mut steps, &mut gs, Step::new(PopFront));
                }
                for _ in 0..s {
                    push(&mut steps, &mut gs, Step::new(PushBack).vals(vals!(&mut rng, 1)).c(rng.below(3) as usize));
                }
            }
            _ => {
                for _ in 0..r {
                    push(&mut steps, &mut gs, Step::new(PushBack).vals(vals!(&mut rng, 1)));
                    push(&mut steps, &mut gs, Step::new(PopFront));
                }
                for _ in 0..s {
                    push(&mut steps, &mut gs, Step::new(PushBack).vals(vals!(&mut rng, 1)));
                }
            }
        }
        // buffer B gets a layout of its own in half of the runs
        if rng.below(2) == 0 {
            let rb = rng.below(n as u64) as usize;
            let sb = rng.below(n as u64 + 1) as usize;
            for _ in 0..rb {
                push(&mut steps, &mut gs, Step::new(PushBack).buf(1).vals(vals!(&mut rng, 1)));
                push(&mut steps, &mut gs, Step::new(PopFront).buf(1));
            }
            if sb > 0 {
                push(&mut steps, &mut gs, Step::new(Extend).buf(1).vals(vals!(&mut rng, sb)).b(rng.below(4) as usize));
            }
        }
    }
    while gs.hand > 4 {
        push(&mut steps, &mut gs, Step::new(DropHand).a(rng.below(8) as usize));
    }

    // ---- focus operation + tail
    let tail_len = *rng.pick(&[0usize, 0, 1, 1, 2, 3, 4, 6, 8, 12, 20, 30]);
    let all = all_deque_ops();
    let mut faults_left = match family {
        Family::None => 0,
        _ => 1 + (rng.below(4) == 0) as u32 + (rng.below(8) == 0) as u32,
    };
    for t in 0..=tail_len {
        let is_focus = t == 0;
        let op = if is_focus || rng.below(100) < prof.focus_bias as u64 {
            if is_focus {
                focus
            } else {
                *rng.pick(&prof.focus)
            }
        } else {
            *rng.pick(&all)
        };
        let x = if is_focus { 0 } else { (rng.below(4) == 0) as u8 };
        let mut st = gs.step(&mut rng, op, x, prof.junk_args);
        // fault annotation
        let want_fault = faults_left > 0 && (is_focus || rng.below(3) == 0);
        if want_fault {
            match family {
                Family::Drop => {
                    let d = gs.calls(&st, FaultKind::Drop);
                    if d > 0 || is_focus {
                        st.fault = Some((FaultKind::Drop, rng.range(1, d as u64 + 1) as u32));
                        faults_left -= 1;
                    }
                }
                Family::User => {
                    let k = user_kind_for(op, &st, &mut rng);
                    let d = gs.calls(&st, k);
                    if d > 0 || is_focus {
                        st.fault = Some((k, rng.range(1, d as u64 + 1) as u32));
                        faults_left -= 1;
                    }
                }
                Family::Forget => {
                    if op == Drain {
                        st.c = 1;
                        faults_left -= 1;
                    }
                }
                _ => {}
            }
        }
        push(&mut steps, &mut gs, st);
        while gs.hand > 6 {
            push(&mut steps, &mut gs, Step::new(DropHand).a(rng.below(8) as usize));
        }
    }

    Script {
        scenario: Scenario::Deque,
        n,
        origin: format!("seed={} prop={} run={} layout=({},{},{}) focus={} family={:?}", seed, prof.prop, run, n, r, s, focus.name(), family),
        garbage: Garbage::None,
        garbage_seed: rng.next_u64(),
        boxed: rng.below(2) == 0,
        transport: 0,
        steps,
    }
}
