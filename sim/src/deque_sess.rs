//! Iterator / drain sessions (sub-histories inside one step), mutable views, explicit reads.

use crate::deque::{new_buf, Buf, Ex, FaultFamily, OpOut};
use crate::elem::{window, Plain, Tracked, H};
use crate::exec::{cls, Probe};
use crate::script::{Op, RangeSpec, Step, BOUND_EXCL, BOUND_INCL, BOUND_UNB};
use std::fmt::Write as _;
use std::ops::Bound;

pub fn bound(k: u8, v: usize) -> Bound<usize> {
    match k {
        BOUND_INCL => Bound::Included(v),
        BOUND_EXCL => Bound::Excluded(v),
        _ => Bound::Unbounded,
    }
}

/// Calls `$body` with `$r` bound to the concrete `RangeBounds` type the spec denotes.
#[macro_export]
macro_rules! with_range {
    ($rs:expr, |$r:ident| $body:expr) => {{
        let rs: $crate::script::RangeSpec = $rs;
        match (rs.raw, rs.sk, rs.ek) {
            (false, $crate::script::BOUND_INCL, $crate::script::BOUND_EXCL) => {
                let $r = rs.sv..rs.ev;
                $body
            }
            (false, $crate::script::BOUND_INCL, $crate::script::BOUND_INCL) => {
                let $r = rs.sv..=rs.ev;
                $body
            }
            (false, $crate::script::BOUND_UNB, $crate::script::BOUND_EXCL) => {
                let $r = ..rs.ev;
                $body
            }
            (false, $crate::script::BOUND_UNB, $crate::script::BOUND_INCL) => {
                let $r = ..=rs.ev;
                $body
            }
            (false, $crate::script::BOUND_INCL, $crate::script::BOUND_UNB) => {
                let $r = rs.sv..;
                $body
            }
            (false, $crate::script::BOUND_UNB, $crate::script::BOUND_UNB) => {
                let $r = ..;
                $body
            }
            _ => {
                let $r = ($crate::deque_sess::bound(rs.sk, rs.sv), $crate::deque_sess::bound(rs.ek, rs.ev));
                $body
            }
        }
    }};
}

pub fn range_argclass(rs: &RangeSpec, len: usize) -> u64 {
    let form = (rs.raw as u64) * 9 + rs.sk as u64 * 3 + rs.ek as u64;
    let shape = match rs.resolve(len) {
        Err(()) => 7,
        Ok((a, b)) => {
            if a == b {
                0
            } else if a == 0 && b == len {
                1
            } else if a == 0 {
                2
            } else if b == len {
                3
            } else {
                4
            }
        }
    };
    form * 8 + shape
}

pub fn plain_debug(vals: &[(u32, u32)]) -> String {
    let v: Vec<Plain> = vals.iter().map(|e| Plain(e.1)).collect();
    format!("{:?}", v)
}

/// Writer that runs under the hook scope so that String growth is not attributed to the crate.
pub struct HookWriter(pub String);
impl std::fmt::Write for HookWriter {
    fn write_str(&mut self, s: &str) -> std::fmt::Result {
        let _h = crate::elem::HookScope::enter();
        self.0.push_str(s);
        Ok(())
    }
}

impl<const N: usize> Ex<N> {
    /// Runs a consumption word over a double-ended exact-size iterator against the two-pointer
    /// model of the selected sub-sequence `exp`. Returns (lo, hi): the un-yielded window.
    #[allow(clippy::too_many_arguments)]
    fn run_word<I>(
        &mut self,
        it: &mut I,
        word: &[u8],
        exp: &[(u32, u32)],
        own: u32,
        on_item: &mut dyn FnMut(&mut Ex<N>, I::Item, Option<usize>),
        extra: &mut dyn FnMut(&mut Ex<N>, &mut I, u8, usize, usize),
    ) -> (usize, usize)
    where
        I: DoubleEndedIterator + ExactSizeIterator,
    {
        let mut lo = 0usize;
        let mut hi = exp.len();
        for &w in word {
            if self.fail.is_some() || self.faulted.is_some() {
                break;
            }
            match w {
                b'n' | b'b' => {
                    let r = window(|| if w == b'n' { it.next() } else { it.next_back() });
                    self.allocs += crate::alloc::take_op_allocs();
                    let Some(got) = self.settle(r, false, own) else { break };
                    let want = if lo < hi {
                        if w == b'n' {
                            lo += 1;
                            Some(lo - 1)
                        } else {
                            hi -= 1;
                            Some(hi)
                        }
                    } else {
                        None
                    };
                    match (got, want) {
                        (None, None) => {
                            let _ = write!(self.trace.line(), " {}-", w as char);
                        }
                        (Some(item), p) => {
                            if p.is_none() {
                                self.fail(own, format!("{} yielded an item after the selected range was exhausted", if w == b'n' { "next()" } else { "next_back()" }));
                            }
                            on_item(self, item, p);
                        }
                        (None, Some(p)) => {
                            self.fail(own, format!("{} returned None but position {} of the selection (id={}) was not yet produced", if w == b'n' { "next()" } else { "next_back()" }, p, exp[p].0));
                        }
                    }
                }
                b'l' => {
                    let l = it.len();
                    let _ = write!(self.trace.line(), " l{l}");
                    if l != hi - lo {
                        self.fail(own, format!("len() = {} but {} elements are not yet produced", l, hi - lo));
                    }
                }
                b's' => {
                    let s = it.size_hint();
                    if s != (hi - lo, Some(hi - lo)) {
                        self.fail(own, format!("size_hint() = {:?} but {} elements are not yet produced", s, hi - lo));
                    }
                }
                b't' | b'T' | b'o' | b'u' | b'U' | b'O' | b'm' | b'M' | b'h' | b'H' | b'g' | b'G' => {
                    // nth / nth_back: skip k elements from that end, then yield one
                    let k = match w {
                        b't' | b'u' => 1usize,
                        b'o' | b'O' => 0,
                        // half of what remains / nine (thresholds on the skip count) / all but one
                        b'm' | b'M' => (hi - lo) / 2,
                        b'h' | b'H' => 9,
                        b'g' | b'G' => (hi - lo).saturating_sub(1),
                        _ => usize::MAX,
                    };
                    let front = matches!(w, b't' | b'T' | b'o' | b'm' | b'h' | b'g');
                    let r = window(|| if front { it.nth(k) } else { it.nth_back(k) });
                    self.allocs += crate::alloc::take_op_allocs();
                    let Some(got) = self.settle(r, false, own) else { break };
                    let skipped = k.min(hi - lo);
                    let want = if front {
                        lo += skipped;
                        if lo < hi {
                            lo += 1;
                            Some(lo - 1)
                        } else {
                            None
                        }
                    } else {
                        hi -= skipped;
                        if lo < hi {
                            hi -= 1;
                            Some(hi)
                        } else {
                            None
                        }
                    };
                    let name = if front { "nth" } else { "nth_back" };
                    match (got, want) {
                        (None, None) => {
                            let _ = write!(self.trace.line(), " {}-", w as char);
                        }
                        (Some(item), p) => {
                            if p.is_none() {
                                self.fail(own, format!("{name}({k}) yielded an item beyond the selected range"));
                            }
                            on_item(self, item, p);
                        }
                        (None, Some(p)) => {
                            self.fail(own, format!("{name}({k}) returned None but position {} of the selection (id={}) should be produced", p, exp[p].0));
                        }
                    }
                }
                b'r' | b'R' => {
                    // short-circuiting searches: rfind / find whose predicate accepts the second
                    // element it sees (try_rfold / try_fold underneath)
                    let front = w == b'R';
                    let mut seen = 0usize;
                    let r = window(|| {
                        if front {
                            it.find(|_| {
                                seen += 1;
                                seen == 2
                            })
                        } else {
                            it.rfind(|_| {
                                seen += 1;
                                seen == 2
                            })
                        }
                    });
                    self.allocs += crate::alloc::take_op_allocs();
                    let Some(got) = self.settle(r, false, own) else { break };
                    let rem = hi - lo;
                    let want = if rem >= 2 {
                        if front {
                            lo += 2;
                            Some(lo - 1)
                        } else {
                            hi -= 2;
                            Some(hi)
                        }
                    } else {
                        lo = hi;
                        None
                    };
                    let name = if front { "find" } else { "rfind" };
                    match (got, want) {
                        (None, None) => {
                            let _ = write!(self.trace.line(), " {}-", w as char);
                        }
                        (Some(item), p) => {
                            if p.is_none() {
                                self.fail(own, format!("{name} returned an item although fewer than two elements were left"));
                            }
                            on_item(self, item, p);
                        }
                        (None, Some(p)) => {
                            self.fail(own, format!("{name} returned None but position {} of the selection (id={}) matches", p, exp[p].0));
                        }
                    }
                }
                other => extra(self, it, other, lo, hi),
            }
        }
        (lo, hi)
    }

    fn take_box(&mut self, x: usize) -> Box<Buf<N>> {
        self.bufs[x].take().unwrap()
    }

    fn drain_probe(&mut self, x: usize, a: usize, b: usize, len: usize) {
        if N == 0 {
            self.stats.probe(Probe::DrainBackfill0);
            return;
        }
        let (start, _) = self.bufs[x].as_ref().unwrap().verif_layout();
        let mut remaining = len - b;
        let mut hole = (start + a) % N;
        let mut back = (start + b) % N;
        let mut steps = 0;
        while remaining > 0 && steps < 10 {
            let c = (N - hole).min(N - back).min(remaining);
            hole = (hole + c) % N;
            back = (back + c) % N;
            remaining -= c;
            steps += 1;
        }
        self.stats.probe(match steps {
            0 => Probe::DrainBackfill0,
            1 => Probe::DrainBackfill1,
            2 => Probe::DrainBackfill2,
            _ => Probe::DrainBackfill3,
        });
        if (start + a) % N + (b - a) > N {
            self.stats.probe(Probe::DrainWrappedHole);
        }
    }

    // ------------------------------------------------------------------ drain
    pub fn op_drain(&mut self, st: &Step, x: usize) -> OpOut {
        let mut out = OpOut::new(cls::DRAIN | cls::RET);
        let len = self.models[x].len();
        let res = st.rs.resolve(len);
        out.argclass = range_argclass(&st.rs, len) * 2 + (st.c as u64 & 1);
        out.nontrivial = true;
        let expect_panic = res.is_err();
        if expect_panic {
            self.stats.probe(Probe::RangeDocPanic);
        }
        let (a, b) = res.unwrap_or((0, 0));
        if !expect_panic {
            self.drain_probe(x, a, b, len);
            out.reloc_bound = Some(len - b);
        }
        let exp: Vec<(u32, u32)> = self.models[x].iter().skip(a).take(b - a).copied().collect();
        let mut bx = self.take_box(x);
        'sess: {
            let bref: &mut Buf<N> = &mut bx;
            let r = window(|| with_range!(st.rs, |r| bref.drain(r)));
            self.allocs += crate::alloc::take_op_allocs();
            let Some(mut d) = self.settle(r, expect_panic, out.own) else { break 'sess };
            let own = out.own;
            let mut yielded: Vec<usize> = Vec::new();
            let (lo, hi) = {
                let yref = &mut yielded;
                let expr = &exp;
                self.run_word(
                    &mut d,
                    &st.word,
                    &exp,
                    own,
                    &mut |ex: &mut Ex<N>, t: Tracked, p: Option<usize>| {
                        let _ = write!(ex.trace.line(), " y{}", t.id);
                        if let Some(p) = p {
                            if t.id != expr[p].0 {
                                ex.fail(own, format!("drain yielded id={} where position {} of the range holds id={}", t.id, p, expr[p].0));
                            }
                            yref.push(p);
                        }
                        ex.check_returned(&t, own);
                        ex.adopt(t);
                    },
                    &mut |ex: &mut Ex<N>, d, w, lo, hi| {
                        if w == b'd' {
                            let mut hw = HookWriter(String::new());
                            let r = window(|| write!(hw, "{:?}", d));
                            ex.allocs += crate::alloc::take_op_allocs();
                            if ex.settle(r, false, own).is_some() {
                                let want = plain_debug(&expr[lo..hi]);
                                if hw.0 != want {
                                    ex.fail(own, format!("Debug of the drain shows {} but the un-yielded part is {}", hw.0, want));
                                }
                            }
                        }
                    },
                )
            };
            let _ = (lo, hi);
            if self.fail.is_some() {
                // state unknown: never run the drain's destructor on it
                std::mem::forget(d);
                break 'sess;
            }
            if self.faulted.is_some() {
                // an injected panic unwound out of a sub-step; the drain itself is intact and is
                // dropped like any caller would (the planned fault has fired, none can follow)
                let r = window(move || drop(d));
                self.allocs += crate::alloc::take_op_allocs();
                let _ = self.settle(r, false, own);
                break 'sess;
            }
            if st.c % 2 == 1 {
                std::mem::forget(d);
                self.faulted = Some(FaultFamily::Forget);
                self.stats.forgets += 1;
                self.stats.probe(Probe::ForgetDrain);
                let _ = write!(self.trace.line(), " forget");
            } else {
                let r = window(move || drop(d));
                self.allocs += crate::alloc::take_op_allocs();
                if self.settle(r, false, own).is_some() {
                    // model: prefix ++ suffix; yielded are in the hand, the rest is destroyed
                    let m = &mut self.models[x];
                    m.drain(a..b);
                }
            }
        }
        self.bufs[x] = Some(bx);
        out
    }

    // ------------------------------------------------------------------ iter / range
    pub fn op_iter(&mut self, st: &Step, x: usize) -> OpOut {
        // iter() and range() are also views of the contents (C07 lists them)
        let mut out = OpOut::new(cls::ITER | cls::VIEW);
        let len = self.models[x].len();
        out.nontrivial = true;
        if st.op == Op::IterDefault {
            let r = self.win(|| {
                let mut it: circular_buffer::Iter<'static, Tracked> = Default::default();
                let mut im: circular_buffer::IterMut<'static, Tracked> = Default::default();
                (it.len(), it.next().is_none(), it.next_back().is_none(), im.len(), im.next().is_none(), im.next_back().is_none())
            });
            if let Some(t) = self.settle(r, false, out.own) {
                if t != (0, true, true, 0, true, true) {
                    self.fail(out.own, format!("default-constructed iterators are not empty: {t:?}"));
                }
            }
            return out;
        }
        let rs = if st.op == Op::Iter { RangeSpec::full() } else { st.rs };
        let res = rs.resolve(len);
        out.argclass = range_argclass(&rs, len);
        let expect_panic = res.is_err();
        if expect_panic {
            self.stats.probe(Probe::RangeDocPanic);
        }
        let (a, b) = res.unwrap_or((0, 0));
        let exp: Vec<(u32, u32)> = self.models[x].iter().skip(a).take(b - a).copied().collect();
        let addrs: Vec<usize> = self.addr_snapshot(x).iter().skip(a).take(b - a).map(|e| e.1).collect();
        {
            let (s0, s1) = self.bufs[x].as_ref().unwrap().as_slices();
            if a < s0.len() && b > s0.len() && !s1.is_empty() {
                self.stats.probe(Probe::IterBothSegments);
            }
        }
        let bx = self.take_box(x);
        'sess: {
            let bref: &Buf<N> = &bx;
            let is_iter = st.op == Op::Iter;
            let r = window(|| if is_iter { bref.iter() } else { with_range!(rs, |r| bref.range(r)) });
            self.allocs += crate::alloc::take_op_allocs();
            let Some(mut it) = self.settle(r, expect_panic, out.own) else { break 'sess };
            let own = out.own;
            let expr = &exp;
            let addrs = &addrs;
            let (lo, hi) = self.run_word(
                &mut it,
                &st.word,
                &exp,
                own,
                &mut |ex: &mut Ex<N>, t: &Tracked, p: Option<usize>| {
                    let _ = write!(ex.trace.line(), " y{}", t.id);
                    if let Some(p) = p {
                        if t.id != expr[p].0 || (t as *const Tracked as usize) != addrs[p] {
                            ex.fail(own, format!("iterator yielded id={} where position {} of the selection holds id={}", t.id, p, expr[p].0));
                        }
                    }
                },
                &mut |ex: &mut Ex<N>, it, w, lo, hi| match w {
                    b'c' => {
                        let r = window(|| it.clone());
                        ex.allocs += crate::alloc::take_op_allocs();
                        if let Some(c) = ex.settle(r, false, own) {
                            let got: Vec<u32> = c.map(|t| t.id).collect();
                            let want: Vec<u32> = expr[lo..hi].iter().map(|e| e.0).collect();
                            if got != want {
                                ex.fail(own, format!("cloned iterator yields {got:?}, the original still has {want:?} to produce"));
                            }
                        }
                    }
                    b'd' => {
                        let mut hw = HookWriter(String::new());
                        let r = window(|| write!(hw, "{:?}", it));
                        ex.allocs += crate::alloc::take_op_allocs();
                        if ex.settle(r, false, own).is_some() {
                            let want = plain_debug(&expr[lo..hi]);
                            if hw.0 != want {
                                ex.fail(own, format!("Debug of the iterator shows {} but {} remains", hw.0, want));
                            }
                        }
                    }
                    _ => {}
                },
            );
            if self.fail.is_none() && self.faulted.is_none() && st.a % 3 != 0 {
                // consume the rest through internal iteration: fold (front to back) or rfold
                let rev = st.a % 3 == 2;
                let r = window(move || if rev { it.rfold(Vec::new(), |mut v, t| { v.push(t.id); v }) } else { it.fold(Vec::new(), |mut v, t| { v.push(t.id); v }) });
                let _ = crate::alloc::take_op_allocs();
                if let Some(got) = self.settle(r, false, own) {
                    let mut want: Vec<u32> = exp[lo..hi].iter().map(|e| e.0).collect();
                    if rev {
                        want.reverse();
                    }
                    if got != want {
                        self.fail(own, format!("{} over the rest of the iterator visited {got:?}, expected {want:?}", if rev { "rfold" } else { "fold" }));
                    }
                }
            }
        }
        self.bufs[x] = Some(bx);
        out
    }

    // ------------------------------------------------------------------ iter_mut / range_mut
    pub fn op_iter_mut(&mut self, st: &Step, x: usize) -> OpOut {
        let mut out = OpOut::new(cls::ITER | cls::VIEW);
        let len = self.models[x].len();
        out.nontrivial = true;
        out.reloc_bound = Some(0);
        let rs = if st.op == Op::IterMut { RangeSpec::full() } else { st.rs };
        let res = rs.resolve(len);
        out.argclass = range_argclass(&rs, len);
        let expect_panic = res.is_err();
        if expect_panic {
            self.stats.probe(Probe::RangeDocPanic);
        }
        let (a, b) = res.unwrap_or((0, 0));
        let exp: Vec<(u32, u32)> = self.models[x].iter().skip(a).take(b - a).copied().collect();
        let addrs: Vec<usize> = self.addr_snapshot(x).iter().skip(a).take(b - a).map(|e| e.1).collect();
        let mut writes: Vec<(usize, u32)> = Vec::new();
        let mut bx = self.take_box(x);
        'sess: {
            let bref: &mut Buf<N> = &mut bx;
            let is_iter = st.op == Op::IterMut;
            let r = window(|| if is_iter { bref.iter_mut() } else { with_range!(rs, |r| bref.range_mut(r)) });
            self.allocs += crate::alloc::take_op_allocs();
            let Some(mut it) = self.settle(r, expect_panic, out.own) else { break 'sess };
            let own = out.own;
            let expr = &exp;
            let addrs = &addrs;
            let mut held: Vec<(usize, &mut Tracked)> = Vec::new();
            let (lo2, hi2) = {
                let held_ref = &mut held;
                self.run_word(
                    &mut it,
                    &st.word,
                    &exp,
                    own,
                    &mut |ex: &mut Ex<N>, t: &mut Tracked, p: Option<usize>| {
                        let _ = write!(ex.trace.line(), " y{}", t.id);
                        if let Some(p) = p {
                            if t.id != expr[p].0 || (t as *mut Tracked as usize) != addrs[p] {
                                ex.fail(own, format!("mutable iterator yielded id={} where position {} of the selection holds id={}", t.id, p, expr[p].0));
                            }
                            held_ref.push((p, t));
                        }
                    },
                    &mut |ex: &mut Ex<N>, it, w, lo, hi| {
                        if w == b'd' {
                            let mut hw = HookWriter(String::new());
                            let r = window(|| write!(hw, "{:?}", it));
                            ex.allocs += crate::alloc::take_op_allocs();
                            if ex.settle(r, false, own).is_some() {
                                let want = plain_debug(&expr[lo..hi]);
                                if hw.0 != want {
                                    ex.fail(own, format!("Debug of the mutable iterator shows {} but {} remains", hw.0, want));
                                }
                            }
                        }
                    },
                )
            };
            if self.fail.is_none() && self.faulted.is_none() && st.a % 3 != 0 {
                let rev = st.a % 3 == 2;
                let r = window(move || if rev { it.rfold(Vec::new(), |mut v, t| { v.push(t.id); v }) } else { it.fold(Vec::new(), |mut v, t| { v.push(t.id); v }) });
                let _ = crate::alloc::take_op_allocs();
                if let Some(got) = self.settle(r, false, own) {
                    let mut want: Vec<u32> = exp[lo2..hi2].iter().map(|e| e.0).collect();
                    if rev {
                        want.reverse();
                    }
                    if got != want {
                        self.fail(own, format!("{} over the rest of the mutable iterator visited {got:?}, expected {want:?}", if rev { "rfold" } else { "fold" }));
                    }
                }
            }
            // all yielded references are alive together: write through every second one
            if self.fail.is_none() && self.faulted.is_none() {
                for (k, (p, t)) in held.iter_mut().enumerate() {
                    if (k + st.b) % 2 == 0 {
                        let nv = (t.val + 1 + st.c as u32) % 3;
                        t.set_val(nv);
                        writes.push((*p, nv));
                    }
                }
            }
        }
        self.bufs[x] = Some(bx);
        for (p, nv) in writes {
            self.models[x][a + p].1 = nv;
        }
        out
    }

    // ------------------------------------------------------------------ into_iter
    pub fn op_into_iter(&mut self, st: &Step, x: usize) -> OpOut {
        let mut out = OpOut::new(cls::ITER | cls::CTOR);
        out.nontrivial = true;
        out.may_alloc = true;
        out.argclass = (st.c % 4) as u64;
        let exp: Vec<(u32, u32)> = self.models[x].iter().copied().collect();
        let bx = self.take_box(x);
        self.bufs[x] = Some(new_buf::<N>(0, false));
        let own = out.own;
        'sess: {
            let r = window(move || (*bx).into_iter());
            self.allocs += crate::alloc::take_op_allocs();
            let Some(mut it) = self.settle(r, false, own) else { break 'sess };
            let expr = &exp;
            let (lo, hi) = self.run_word(
                &mut it,
                &st.word,
                &exp,
                own,
                &mut |ex: &mut Ex<N>, t: Tracked, p: Option<usize>| {
                    let _ = write!(ex.trace.line(), " y{}", t.id);
                    if let Some(p) = p {
                        if t.id != expr[p].0 {
                            ex.fail(own, format!("owning iterator yielded id={} where position {} holds id={}", t.id, p, expr[p].0));
                        }
                    }
                    ex.check_returned(&t, own);
                    ex.adopt(t);
                },
                &mut |ex: &mut Ex<N>, it, w, lo, hi| match w {
                    b'c' => {
                        let r = window(|| it.clone());
                        ex.allocs += crate::alloc::take_op_allocs();
                        if let Some(c) = ex.settle(r, false, own) {
                            // the clone owns element-wise clones of the remaining elements
                            let mut ok = true;
                            let got: Vec<(u32, u32)> = {
                                let mut v = Vec::new();
                                let mut c = c;
                                while let Some(t) = c.next() {
                                    v.push((t.id, t.val));
                                    drop(t);
                                }
                                v
                            };
                            if got.len() != hi - lo {
                                ok = false;
                            } else {
                                for (k, (id, val)) in got.iter().enumerate() {
                                    let src = expr[lo + k];
                                    let o = H.with(|h| h.borrow().ents[*id as usize].origin);
                                    if *val != src.1 || o != crate::elem::Origin::CloneOf(src.0) {
                                        ok = false;
                                    }
                                }
                            }
                            if !ok {
                                ex.fail(own, format!("cloned owning iterator yields {got:?}, expected clones of {:?}", &expr[lo..hi]));
                            }
                        }
                    }
                    b'd' => {
                        let mut hw = HookWriter(String::new());
                        let r = window(|| write!(hw, "{:?}", it));
                        ex.allocs += crate::alloc::take_op_allocs();
                        if ex.settle(r, false, own).is_some() {
                            let want = plain_debug(&expr[lo..hi]);
                            if hw.0 != want {
                                ex.fail(own, format!("Debug of the owning iterator shows {} but {} remains", hw.0, want));
                            }
                        }
                    }
                    _ => {}
                },
            );
            if self.fail.is_some() {
                std::mem::forget(it);
                break 'sess;
            }
            if self.faulted.is_some() {
                let r = window(move || drop(it));
                self.allocs += crate::alloc::take_op_allocs();
                let _ = self.settle(r, false, own);
                break 'sess;
            }
            match st.c % 4 {
                3 => {
                    // internal iteration whose closure destroys each element (for_each(drop)):
                    // a planned destructor panic then fires inside the crate's fold
                    let r = window(move || {
                        it.for_each(|t| {
                            let _h = crate::elem::HookScope::enter();
                            crate::elem::user_code_tick(crate::elem::FaultKind::Closure);
                            drop(t);
                        })
                    });
                    self.allocs += crate::alloc::take_op_allocs();
                    let _ = self.settle(r, false, own);
                }
                1 => {
                    // collect the rest into a new buffer: the original elements in order
                    let r = window(move || it.collect::<Buf<N>>());
                    self.allocs += crate::alloc::take_op_allocs();
                    if let Some(nb) = self.settle(r, false, own) {
                        self.bufs[x] = Some(Box::new(nb));
                        self.models[x] = exp[lo..hi].iter().copied().collect();
                        return out;
                    }
                }
                2 => {
                    // internal iteration with a user closure (for_each / fold); the closure may
                    // carry a planned ClosurePanic
                    let sink: std::rc::Rc<std::cell::RefCell<Vec<Tracked>>> = Default::default();
                    let s2 = sink.clone();
                    let r = window(move || {
                        it.fold(0usize, |n, t| {
                            let _h = crate::elem::HookScope::enter();
                            crate::elem::user_code_tick(crate::elem::FaultKind::Closure);
                            s2.borrow_mut().push(t);
                            n + 1
                        })
                    });
                    self.allocs += crate::alloc::take_op_allocs();
                    let got: Vec<Tracked> = std::mem::take(&mut *sink.borrow_mut());
                    let ids: Vec<u32> = got.iter().map(|t| t.id).collect();
                    let settled = self.settle(r, false, own);
                    if settled.is_some() {
                        let want: Vec<u32> = exp[lo..hi].iter().map(|e| e.0).collect();
                        if ids != want {
                            self.fail(own, format!("fold over the owning iterator visited {ids:?}, the remaining elements are {want:?}"));
                        }
                    }
                    for t in got {
                        self.check_returned(&t, own);
                        self.adopt(t);
                    }
                }
                _ => {
                    let r = window(move || drop(it));
                    self.allocs += crate::alloc::take_op_allocs();
                    let _ = self.settle(r, false, own);
                }
            }
        }
        self.models[x].clear();
        out
    }

    // ------------------------------------------------------------------ mutable single-element views
    pub fn op_mut_view(&mut self, st: &Step, x: usize) -> OpOut {
        let mut out = OpOut::new(cls::VIEW | cls::RET);
        out.reloc_bound = Some(0);
        let len = self.models[x].len();
        let i = st.a;
        out.argclass = idclass2(i, len) * 4 + (st.b as u64 % 3);
        out.nontrivial = true;
        // model position addressed by the accessor
        let pos: Option<usize> = match st.op {
            Op::GetMut | Op::NthFrontMut | Op::IndexMut | Op::AsMutSlices => {
                if i < len {
                    Some(i)
                } else {
                    None
                }
            }
            Op::NthBackMut => {
                if i < len {
                    Some(len - 1 - i)
                } else {
                    None
                }
            }
            Op::FrontMut => {
                if len > 0 {
                    Some(0)
                } else {
                    None
                }
            }
            _ => {
                if len > 0 {
                    Some(len - 1)
                } else {
                    None
                }
            }
        };
        let expect_panic = st.op == Op::IndexMut && pos.is_none();
        if expect_panic {
            self.stats.probe(Probe::IndexDocPanic);
        }
        let want_addr = pos.map(|p| self.addr_snapshot(x)[p].1);
        let action = st.b % 3;
        let newval = st.vals.first().copied().unwrap_or(0) % 3;
        let replacement = if action == 2 && pos.is_some() { Some(self.take_elem(st.c, newval)) } else { None };
        let rep_id = replacement.as_ref().map(|t| (t.id, t.val));
        let mut bx = self.take_box(x);
        let op = st.op;
        let mut old: Option<Tracked> = None;
        let mut replacement = replacement;
        {
            let bref: &mut Buf<N> = &mut bx;
            let r = window(|| -> Option<&mut Tracked> {
                match op {
                    Op::GetMut => bref.get_mut(i),
                    Op::NthFrontMut => bref.nth_front_mut(i),
                    Op::NthBackMut => bref.nth_back_mut(i),
                    Op::FrontMut => bref.front_mut(),
                    Op::BackMut => bref.back_mut(),
                    Op::IndexMut => Some(&mut bref[i]),
                    _ => {
                        let (s0, s1) = bref.as_mut_slices();
                        if i < s0.len() {
                            Some(&mut s0[i])
                        } else if i - s0.len() < s1.len() {
                            Some(&mut s1[i - s0.len()])
                        } else {
                            None
                        }
                    }
                }
            });
            self.allocs += crate::alloc::take_op_allocs();
            if let Some(got) = self.settle(r, expect_panic, out.own) {
                let got_addr = got.as_ref().map(|t| (&**t) as *const Tracked as usize);
                let _ = write!(self.trace.line(), " r={:?}", got.as_ref().map(|t| t.id));
                if got_addr != want_addr {
                    self.fail(out.own, format!("{}({}) addresses {:?}, the shared accessor addresses {:?} (len {})", op.name(), i, got.as_ref().map(|t| t.id), pos.map(|p| self.models[x][p].0), len));
                } else if let (Some(t), Some(p)) = (got, pos) {
                    match action {
                        1 => {
                            t.set_val(newval);
                            self.models[x][p].1 = newval;
                        }
                        2 => {
                            let o = std::mem::replace(t, replacement.take().unwrap());
                            old = Some(o);
                            self.models[x][p] = rep_id.unwrap();
                        }
                        _ => {}
                    }
                }
            }
        }
        self.bufs[x] = Some(bx);
        if let Some(o) = old {
            self.adopt(o);
        }
        if let Some(r) = replacement {
            // not used (call failed or panicked): back to the hand
            self.hand.push(r);
        }
        out
    }

    // ------------------------------------------------------------------ explicit reads
    pub fn op_index(&mut self, st: &Step, x: usize) -> OpOut {
        let mut out = OpOut::new(cls::VIEW);
        out.reloc_bound = Some(0);
        let len = self.models[x].len();
        let i = st.a;
        out.argclass = idclass2(i, len);
        out.nontrivial = true;
        let expect_panic = i >= len;
        if expect_panic {
            self.stats.probe(Probe::IndexDocPanic);
        }
        let b = self.bufs[x].as_ref().unwrap();
        let r = window(|| b[i].id);
        self.allocs += crate::alloc::take_op_allocs();
        if let Some(id) = self.settle(r, expect_panic, out.own) {
            if id != self.models[x][i].0 {
                self.fail(out.own, format!("buf[{}] is id={}, model says id={}", i, id, self.models[x][i].0));
            }
        }
        out
    }

    pub fn op_to_vec(&mut self, _st: &Step, x: usize) -> OpOut {
        let mut out = OpOut::new(cls::CTOR | cls::VIEW);
        out.may_alloc = true;
        out.reloc_bound = Some(0);
        out.nontrivial = true;
        #[cfg(feature = "alloc")]
        {
            let b = self.bufs[x].as_ref().unwrap();
            let r = window(|| b.to_vec());
            self.allocs += crate::alloc::take_op_allocs();
            if let Some(v) = self.settle(r, false, out.own) {
                let want: Vec<(u32, u32)> = self.models[x].iter().copied().collect();
                let mut ok = v.len() == want.len();
                if ok {
                    for (t, w) in v.iter().zip(want.iter()) {
                        let o = H.with(|h| h.borrow().ents[t.id as usize].origin);
                        if t.val != w.1 || o != crate::elem::Origin::CloneOf(w.0) {
                            ok = false;
                        }
                    }
                }
                if !ok {
                    let got: Vec<(u32, u32)> = v.iter().map(|t| (t.id, t.val)).collect();
                    self.fail(out.own, format!("to_vec() = {got:?}, expected element-wise clones of {want:?}"));
                }
                drop(v);
            }
        }
        let _ = x;
        out
    }

    // ------------------------------------------------------------------ make_contiguous
    pub fn op_make_contiguous(&mut self, st: &Step, x: usize) -> OpOut {
        let mut out = OpOut::new(cls::VIEW | cls::RET);
        let len = self.models[x].len();
        out.nontrivial = len > 0;
        let (start, size) = self.bufs[x].as_ref().unwrap().verif_layout();
        let contiguous_before = self.bufs[x].as_ref().unwrap().as_slices().1.is_empty();
        let pre_addr = self.addr_snapshot(x);
        if contiguous_before {
            if N > 0 && size > 0 && start + size == N && start > 0 {
                self.stats.probe(Probe::MakeContigEndAtArrayEnd);
            }
        } else {
            self.stats.probe(Probe::MakeContigRotates);
        }
        out.argclass = contiguous_before as u64 * 4 + (st.b as u64 % 4);
        let want: Vec<(u32, u32)> = self.models[x].iter().copied().collect();
        let mut bx = self.take_box(x);
        {
            let bref: &mut Buf<N> = &mut bx;
            let r = window(|| bref.make_contiguous());
            self.allocs += crate::alloc::take_op_allocs();
            if let Some(slice) = self.settle(r, false, out.own) {
                let got: Vec<(u32, u32)> = slice.iter().map(|t| (t.id, t.val)).collect();
                let moved = slice.iter().filter(|t| pre_addr.iter().any(|(id, a)| *id == t.id && *a != (*t as *const Tracked as usize))).count();
                if got != want {
                    self.fail(out.own, format!("make_contiguous() returned {got:?}, contents are {want:?}"));
                } else if contiguous_before && moved > 0 {
                    self.fail(cls::RELOC, format!("make_contiguous relocated {moved} elements although the contents were already contiguous (start={start} size={size} N={N})"));
                } else {
                    match st.b % 4 {
                        1 => {
                            slice.reverse();
                            let m = &mut self.models[x];
                            let v: Vec<(u32, u32)> = m.iter().rev().copied().collect();
                            *m = v.into_iter().collect();
                        }
                        2 => {
                            if !slice.is_empty() {
                                let p = st.a % slice.len();
                                let nv = (slice[p].val + 1) % 3;
                                slice[p].set_val(nv);
                                self.models[x][p].1 = nv;
                            }
                        }
                        3 => {
                            if slice.len() >= 2 {
                                let p = st.a % slice.len();
                                let q = (p + 1) % slice.len();
                                slice.swap(p, q);
                                self.models[x].swap(p, q);
                            }
                        }
                        _ => {}
                    }
                }
            }
        }
        self.bufs[x] = Some(bx);
        if self.fail.is_none() && self.faulted.is_none() && !self.window_panicked {
            let b = self.bufs[x].as_ref().unwrap();
            let (s0, s1) = b.as_slices();
            if !s1.is_empty() || s0.len() != len {
                let (l0, l1) = (s0.len(), s1.len());
                self.fail(out.own, format!("after make_contiguous(), as_slices() reports {l0}+{l1} elements instead of a single slice of {len}"));
            }
        }
        out
    }
}

fn idclass2(i: usize, len: usize) -> u64 {
    if i == usize::MAX {
        5
    } else if len > 0 && i == len - 1 {
        1
    } else if i == len {
        2
    } else if i > len {
        3
    } else if i == 0 {
        0
    } else {
        4
    }
}
