//! Script minimisation: shrink the step list (ddmin-style chunk deletion, then single steps),
//! then the steps themselves (fault annotations, words, values, numeric arguments), while the
//! same violation class persists. Budgeted by a count of executions so that it is repeatable.

use crate::script::{RangeSpec, Script, Step, BOUND_EXCL, BOUND_INCL};

pub struct MinStats {
    pub execs: usize,
    pub from_steps: usize,
    pub to_steps: usize,
}

pub fn minimize(script: &Script, budget: usize, fails: &mut dyn FnMut(&Script) -> bool) -> (Script, MinStats) {
    let (first, st1) = minimize_once(script, budget, fails);
    // try a smaller compiled capacity, smallest first, then shrink again
    let caps: &[usize] = match first.scenario {
        crate::script::Scenario::Deque => &crate::gen::DEQUE_NS,
        crate::script::Scenario::Io => &[0, 1, 2, 3, 4, 5, 8, 16, 64],
        crate::script::Scenario::Zst => &[],
    };
    let mut execs = st1.execs;
    for n in caps.iter().copied().filter(|n| *n < first.n) {
        if execs >= budget {
            break;
        }
        let mut cand = first.clone();
        cand.n = n;
        execs += 1;
        if fails(&cand) {
            let (second, st2) = minimize_once(&cand, budget.saturating_sub(execs), fails);
            return (second, MinStats { execs: execs + st2.execs, from_steps: st1.from_steps, to_steps: st2.to_steps });
        }
    }
    (first, MinStats { execs, from_steps: st1.from_steps, to_steps: st1.to_steps })
}

fn minimize_once(script: &Script, budget: usize, fails: &mut dyn FnMut(&Script) -> bool) -> (Script, MinStats) {
    let mut cur = script.clone();
    let mut execs = 0usize;
    let from_steps = cur.steps.len();
    let mut try_it = |cand: &Script, execs: &mut usize| -> bool {
        if *execs >= budget {
            return false;
        }
        *execs += 1;
        fails(cand)
    };

    // 1. chunk deletion
    let mut chunk = (cur.steps.len() / 2).max(1);
    loop {
        let mut i = 0;
        let mut progressed = false;
        while i < cur.steps.len() && execs < budget {
            let end = (i + chunk).min(cur.steps.len());
            let mut cand = cur.clone();
            cand.steps.drain(i..end);
            if try_it(&cand, &mut execs) {
                cur = cand;
                progressed = true;
            } else {
                i = end;
            }
        }
        if execs >= budget {
            break;
        }
        if chunk == 1 {
            if !progressed {
                break;
            }
        } else {
            chunk /= 2;
        }
    }

    // 2. per-step simplification, repeated until no change
    let mut changed = true;
    while changed && execs < budget {
        changed = false;
        for i in 0..cur.steps.len() {
            let variants = simpler(&cur.steps[i]);
            for v in variants {
                if execs >= budget {
                    break;
                }
                let mut cand = cur.clone();
                cand.steps[i] = v;
                if try_it(&cand, &mut execs) {
                    cur = cand;
                    changed = true;
                }
            }
        }
        // one more pass of single-step deletion
        let mut i = 0;
        while i < cur.steps.len() && execs < budget {
            let mut cand = cur.clone();
            cand.steps.remove(i);
            if try_it(&cand, &mut execs) {
                cur = cand;
                changed = true;
            } else {
                i += 1;
            }
        }
        // header simplification
        if cur.boxed {
            let mut cand = cur.clone();
            cand.boxed = false;
            if try_it(&cand, &mut execs) {
                cur = cand;
            }
        }
    }
    let to_steps = cur.steps.len();
    (cur, MinStats { execs, from_steps, to_steps })
}

fn simpler(st: &Step) -> Vec<Step> {
    let mut out = Vec::new();
    if st.fault.is_some() {
        let mut s = st.clone();
        s.fault = None;
        out.push(s);
        if let Some((k, n)) = st.fault {
            if n > 1 {
                let mut s = st.clone();
                s.fault = Some((k, 1));
                out.push(s);
                let mut s = st.clone();
                s.fault = Some((k, n - 1));
                out.push(s);
            }
        }
    }
    if !st.word.is_empty() {
        let mut s = st.clone();
        s.word.clear();
        out.push(s);
        for i in 0..st.word.len() {
            let mut s = st.clone();
            s.word.remove(i);
            out.push(s);
        }
    }
    if st.vals.len() > 1 {
        let mut s = st.clone();
        s.vals.truncate(st.vals.len() / 2);
        out.push(s);
        let mut s = st.clone();
        s.vals.pop();
        out.push(s);
    }
    if st.vals.iter().any(|v| *v != 0) {
        let mut s = st.clone();
        for v in s.vals.iter_mut() {
            *v = 0;
        }
        out.push(s);
    }
    for (get, set) in [
        ((|s: &Step| s.a) as fn(&Step) -> usize, (|s: &mut Step, v: usize| s.a = v) as fn(&mut Step, usize)),
        (|s: &Step| s.b, |s: &mut Step, v: usize| s.b = v),
        (|s: &Step| s.c, |s: &mut Step, v: usize| s.c = v),
    ] {
        let v = get(st);
        if v != 0 {
            let mut s = st.clone();
            set(&mut s, 0);
            out.push(s);
            if v > 1 {
                let mut s = st.clone();
                set(&mut s, v - 1);
                out.push(s);
                if v > 16 {
                    let mut s = st.clone();
                    set(&mut s, v % 16);
                    out.push(s);
                }
            }
        }
    }
    if st.rs != RangeSpec::full() {
        let mut s = st.clone();
        s.rs = RangeSpec::full();
        out.push(s);
        if st.rs.raw || st.rs.sk != BOUND_INCL || st.rs.ek != BOUND_EXCL {
            // try the plain half-open form of the same numbers
            let mut s = st.clone();
            s.rs = RangeSpec { sk: BOUND_INCL, sv: st.rs.sv, ek: BOUND_EXCL, ev: st.rs.ev, raw: false };
            out.push(s);
        }
        if st.rs.sv > 0 {
            let mut s = st.clone();
            s.rs.sv -= 1;
            out.push(s);
        }
        if st.rs.ev > 0 {
            let mut s = st.clone();
            s.rs.ev -= 1;
            out.push(s);
        }
    }
    out
}
