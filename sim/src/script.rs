//! Scripts: the schedule *is* the artefact. A run is `generate(seed, stratum) -> Script`, then
//! `execute(Script) -> Outcome`. Every step is total (any argument is meaningful in any state),
//! so every sub-sequence of a script is again a script — the precondition for minimisation.

use crate::elem::FaultKind;
use std::fmt::Write as _;

macro_rules! ops {
    ($($name:ident => $text:literal),* $(,)?) => {
        #[derive(Clone, Copy, PartialEq, Eq, Debug, PartialOrd, Ord, Hash)]
        #[repr(u8)]
        pub enum Op { $($name),* }
        pub const ALL_OPS: &[Op] = &[$(Op::$name),*];
        impl Op {
            pub fn name(self) -> &'static str { match self { $(Op::$name => $text),* } }
            pub fn parse(s: &str) -> Option<Op> { match s { $($text => Some(Op::$name),)* _ => None } }
        }
    };
}

ops! {
    // --- deque scenario: single-element mutators
    PushBack => "push_back",
    PushFront => "push_front",
    TryPushBack => "try_push_back",
    TryPushFront => "try_push_front",
    PopBack => "pop_back",
    PopFront => "pop_front",
    Remove => "remove",
    Swap => "swap",
    SwapRemoveBack => "swap_remove_back",
    SwapRemoveFront => "swap_remove_front",
    TruncateBack => "truncate_back",
    TruncateFront => "truncate_front",
    Clear => "clear",
    // bulk mutators
    Fill => "fill",
    FillWith => "fill_with",
    FillSpare => "fill_spare",
    FillSpareWith => "fill_spare_with",
    ExtendFromSlice => "extend_from_slice",
    Extend => "extend",
    MakeContiguous => "make_contiguous",
    Drain => "drain",
    // mutable views
    GetMut => "get_mut",
    NthFrontMut => "nth_front_mut",
    NthBackMut => "nth_back_mut",
    FrontMut => "front_mut",
    BackMut => "back_mut",
    IndexMut => "index_mut",
    AsMutSlices => "as_mut_slices",
    IterMut => "iter_mut",
    RangeMut => "range_mut",
    // read views as explicit operations (the observer also reads after every step)
    Index => "index",
    Iter => "iter",
    Range => "range",
    IterDefault => "iter_default",
    IntoIter => "into_iter",
    ToVec => "to_vec",
    // constructors / conversions
    New => "new",
    FromArray => "from_array",
    FromIter => "from_iter",
    CloneTo => "clone_to",
    CloneFrom => "clone_from",
    DropBuf => "drop_buf",
    // comparisons
    CmpBufs => "cmp_bufs",
    EqSlice => "eq_slice",
    DebugFmt => "debug_fmt",
    CrossCmp => "cross_cmp",
    // harness hand
    DropHand => "drop_hand",
    // --- io scenario
    IoWrite => "io_write",
    IoWriteAll => "io_write_all",
    IoWriteVectored => "io_write_vectored",
    IoWriteFmt => "io_write_fmt",
    IoFlush => "io_flush",
    IoCopyIn => "io_copy_in",
    IoRead => "io_read",
    IoReadExact => "io_read_exact",
    IoReadToEnd => "io_read_to_end",
    IoReadToString => "io_read_to_string",
    IoReadVectored => "io_read_vectored",
    IoBytes => "io_bytes",
    IoFillBuf => "io_fill_buf",
    IoConsume => "io_consume",
    IoFillConsume => "io_fill_consume",
    IoReadUntil => "io_read_until",
    IoReadLine => "io_read_line",
    IoTake => "io_take",
    IoCopyOut => "io_copy_out",
    IoExtendRef => "io_extend_ref",
    IoLayout => "io_layout",
    IoStall => "io_stall",
    // --- zst scenario reuses the deque names where they apply
}

pub const BOUND_INCL: u8 = 0;
pub const BOUND_EXCL: u8 = 1;
pub const BOUND_UNB: u8 = 2;

/// A `RangeBounds<usize>` argument. When `raw` is false and the pair has a native form
/// (`a..b`, `a..=b`, `..b`, `..=b`, `a..`, `..`) that concrete range type is used, otherwise the
/// `(Bound<usize>, Bound<usize>)` tuple.
#[derive(Clone, Copy, PartialEq, Eq, Debug, Default)]
pub struct RangeSpec {
    pub sk: u8,
    pub sv: usize,
    pub ek: u8,
    pub ev: usize,
    pub raw: bool,
}

impl RangeSpec {
    pub fn full() -> Self {
        RangeSpec { sk: BOUND_UNB, sv: 0, ek: BOUND_UNB, ev: 0, raw: false }
    }
    pub fn half_open(a: usize, b: usize) -> Self {
        RangeSpec { sk: BOUND_INCL, sv: a, ek: BOUND_EXCL, ev: b, raw: false }
    }
    /// Model of the documented behaviour in 128-bit arithmetic: Ok((start, end)) or Err(()) when
    /// the call must panic (start > end or end > len, including the usize overflow cases).
    pub fn resolve(&self, len: usize) -> Result<(usize, usize), ()> {
        let start: u128 = match self.sk {
            BOUND_INCL => self.sv as u128,
            BOUND_EXCL => self.sv as u128 + 1,
            _ => 0,
        };
        let end: u128 = match self.ek {
            BOUND_INCL => self.ev as u128 + 1,
            BOUND_EXCL => self.ev as u128,
            _ => len as u128,
        };
        if end > len as u128 || start > end {
            Err(())
        } else {
            Ok((start as usize, end as usize))
        }
    }
    pub fn to_text(&self) -> String {
        let k = |k: u8| match k {
            BOUND_INCL => 'i',
            BOUND_EXCL => 'e',
            _ => 'u',
        };
        format!("{}{}:{}{}{}", k(self.sk), self.sv, k(self.ek), self.ev, if self.raw { "r" } else { "" })
    }
    pub fn parse(s: &str) -> Option<RangeSpec> {
        let raw = s.ends_with('r');
        let s = s.trim_end_matches('r');
        let (a, b) = s.split_once(':')?;
        let pk = |c: char| match c {
            'i' => Some(BOUND_INCL),
            'e' => Some(BOUND_EXCL),
            'u' => Some(BOUND_UNB),
            _ => None,
        };
        let sk = pk(a.chars().next()?)?;
        let ek = pk(b.chars().next()?)?;
        Some(RangeSpec { sk, sv: a[1..].parse().ok()?, ek, ev: b[1..].parse().ok()?, raw })
    }
}

#[derive(Clone, PartialEq, Eq, Debug)]
pub struct Step {
    pub op: Op,
    pub buf: u8,
    pub a: usize,
    pub b: usize,
    pub c: usize,
    pub rs: RangeSpec,
    pub vals: Vec<u32>,
    pub word: Vec<u8>,
    pub fault: Option<(FaultKind, u32)>,
}

impl Step {
    pub fn new(op: Op) -> Step {
        Step { op, buf: 0, a: 0, b: 0, c: 0, rs: RangeSpec::full(), vals: Vec::new(), word: Vec::new(), fault: None }
    }
    pub fn buf(mut self, b: u8) -> Step {
        self.buf = b;
        self
    }
    pub fn a(mut self, a: usize) -> Step {
        self.a = a;
        self
    }
    pub fn b(mut self, b: usize) -> Step {
        self.b = b;
        self
    }
    pub fn c(mut self, c: usize) -> Step {
        self.c = c;
        self
    }
    pub fn rs(mut self, r: RangeSpec) -> Step {
        self.rs = r;
        self
    }
    pub fn vals(mut self, v: Vec<u32>) -> Step {
        self.vals = v;
        self
    }
    pub fn word(mut self, w: &[u8]) -> Step {
        self.word = w.to_vec();
        self
    }

    pub fn to_text(&self) -> String {
        let mut s = String::new();
        let _ = write!(s, "{} {} {} {} {} {}", self.op.name(), self.buf, self.a, self.b, self.c, self.rs.to_text());
        if self.vals.is_empty() {
            s.push_str(" -");
        } else {
            s.push(' ');
            for (i, v) in self.vals.iter().enumerate() {
                if i > 0 {
                    s.push(',');
                }
                let _ = write!(s, "{v}");
            }
        }
        if self.word.is_empty() {
            s.push_str(" -");
        } else {
            s.push(' ');
            s.push_str(std::str::from_utf8(&self.word).unwrap_or("?"));
        }
        match self.fault {
            None => s.push_str(" -"),
            Some((k, n)) => {
                let _ = write!(s, " {}:{}", k.name(), n);
            }
        }
        s
    }

    pub fn parse(line: &str) -> Result<Step, String> {
        let t: Vec<&str> = line.split_whitespace().collect();
        if t.len() != 9 {
            return Err(format!("step needs 9 tokens, got {}: {line}", t.len()));
        }
        let op = Op::parse(t[0]).ok_or_else(|| format!("unknown op {}", t[0]))?;
        let pu = |s: &str| s.parse::<usize>().map_err(|e| format!("{e}: {s}"));
        let vals = if t[6] == "-" {
            Vec::new()
        } else {
            t[6].split(',').map(|x| x.parse::<u32>().map_err(|e| format!("{e}: {x}"))).collect::<Result<Vec<_>, _>>()?
        };
        let word = if t[7] == "-" { Vec::new() } else { t[7].as_bytes().to_vec() };
        let fault = if t[8] == "-" {
            None
        } else {
            let (k, n) = t[8].split_once(':').ok_or("bad fault")?;
            Some((FaultKind::parse(k).ok_or("bad fault kind")?, n.parse::<u32>().map_err(|e| e.to_string())?))
        };
        Ok(Step {
            op,
            buf: t[1].parse::<u8>().map_err(|e| e.to_string())?,
            a: pu(t[2])?,
            b: pu(t[3])?,
            c: pu(t[4])?,
            rs: RangeSpec::parse(t[5]).ok_or("bad range")?,
            vals,
            word,
            fault,
        })
    }
}

#[derive(Clone, Copy, PartialEq, Eq, Debug)]
pub enum Scenario {
    Deque,
    Io,
    Zst,
}
impl Scenario {
    pub fn name(self) -> &'static str {
        match self {
            Scenario::Deque => "deque",
            Scenario::Io => "io",
            Scenario::Zst => "zst",
        }
    }
    pub fn parse(s: &str) -> Option<Scenario> {
        match s {
            "deque" => Some(Scenario::Deque),
            "io" => Some(Scenario::Io),
            "zst" => Some(Scenario::Zst),
            _ => None,
        }
    }
}

/// Garbage filling of the unoccupied slots (seam S3), applied after construction and after
/// every step when not `None`.
#[derive(Clone, Copy, PartialEq, Eq, Debug)]
pub enum Garbage {
    None,
    Zero,
    Ones,
    X5A,
    Random,
    StaleDead,
    LiveCopy,
    Mixed,
}
impl Garbage {
    pub const ALL: [Garbage; 8] = [
        Garbage::None,
        Garbage::Zero,
        Garbage::Ones,
        Garbage::X5A,
        Garbage::Random,
        Garbage::StaleDead,
        Garbage::LiveCopy,
        Garbage::Mixed,
    ];
    pub fn name(self) -> &'static str {
        match self {
            Garbage::None => "none",
            Garbage::Zero => "00",
            Garbage::Ones => "ff",
            Garbage::X5A => "5a",
            Garbage::Random => "random",
            Garbage::StaleDead => "stale",
            Garbage::LiveCopy => "livecopy",
            Garbage::Mixed => "mixed",
        }
    }
    pub fn parse(s: &str) -> Option<Garbage> {
        Garbage::ALL.iter().copied().find(|g| g.name() == s)
    }
}

#[derive(Clone, Debug)]
pub struct Script {
    pub scenario: Scenario,
    /// capacity index: the compiled capacity used for this run (scenario specific table)
    pub n: usize,
    /// free-form provenance (seed, run, profile); not interpreted
    pub origin: String,
    pub garbage: Garbage,
    pub garbage_seed: u64,
    /// construct buffers with `boxed()` (true) or `Box::new(new())` (false)
    pub boxed: bool,
    /// io scenario: which trait family drives the buffer (0 std::io, 1 embedded_io, 2 embedded_io_async)
    pub transport: u8,
    pub steps: Vec<Step>,
}

impl Script {
    pub fn to_text(&self) -> String {
        let mut s = String::new();
        let _ = writeln!(s, "cbsim-script v1");
        let _ = writeln!(s, "scenario {}", self.scenario.name());
        let _ = writeln!(s, "n {}", self.n);
        let _ = writeln!(s, "origin {}", if self.origin.is_empty() { "-" } else { &self.origin });
        let _ = writeln!(s, "garbage {} {}", self.garbage.name(), self.garbage_seed);
        let _ = writeln!(s, "boxed {}", self.boxed as u8);
        let _ = writeln!(s, "transport {}", self.transport);
        for st in &self.steps {
            let _ = writeln!(s, "step {}", st.to_text());
        }
        s
    }

    pub fn parse(text: &str) -> Result<Script, String> {
        let mut sc = Script {
            scenario: Scenario::Deque,
            n: 0,
            origin: String::new(),
            garbage: Garbage::None,
            garbage_seed: 0,
            boxed: false,
            transport: 0,
            steps: Vec::new(),
        };
        let mut seen_header = false;
        for line in text.lines() {
            let line = line.trim();
            if line.is_empty() || line.starts_with('#') {
                continue;
            }
            if line.starts_with("cbsim-script") {
                seen_header = true;
                continue;
            }
            let (k, rest) = line.split_once(' ').unwrap_or((line, ""));
            match k {
                "scenario" => sc.scenario = Scenario::parse(rest).ok_or("bad scenario")?,
                "n" => sc.n = rest.parse().map_err(|_| "bad n")?,
                "origin" => sc.origin = rest.to_string(),
                "garbage" => {
                    let (g, s) = rest.split_once(' ').ok_or("bad garbage")?;
                    sc.garbage = Garbage::parse(g).ok_or("bad garbage kind")?;
                    sc.garbage_seed = s.parse().map_err(|_| "bad garbage seed")?;
                }
                "boxed" => sc.boxed = rest == "1",
                "transport" => sc.transport = rest.parse().map_err(|_| "bad transport")?,
                "step" => sc.steps.push(Step::parse(rest)?),
                // lines written by the driver for human readers; not part of the script
                "expect" | "violation" | "property" | "build" | "note" | "differential" => {}
                _ => return Err(format!("unknown line: {line}")),
            }
        }
        if !seen_header {
            return Err("missing header".into());
        }
        Ok(sc)
    }
}
