//! Shared executor infrastructure: oracle classes and their mapping to properties, failures,
//! outcomes, per-run statistics, the event trace and its digest.

use crate::elem::NKINDS;
use crate::rng::Fnv;
use crate::script::Op;

/// Oracle classes (DESIGN §2.7). A failure carries a small set of classes.
pub mod cls {
    pub const RET: u32 = 1 << 0;
    pub const CONTENTS: u32 = 1 << 1;
    pub const IDENT: u32 = 1 << 2;
    pub const LEDGER: u32 = 1 << 3;
    pub const GARBAGE: u32 = 1 << 4;
    pub const DROP_FAULT: u32 = 1 << 5;
    pub const USER_FAULT: u32 = 1 << 6;
    pub const VIEW: u32 = 1 << 7;
    pub const ITER: u32 = 1 << 8;
    pub const DRAIN: u32 = 1 << 9;
    pub const FORGET: u32 = 1 << 10;
    pub const PANIC_SPEC: u32 = 1 << 11;
    pub const CTOR: u32 = 1 << 12;
    pub const CMP: u32 = 1 << 13;
    pub const IO: u32 = 1 << 14;
    pub const EIO: u32 = 1 << 15;
    pub const ALLOC: u32 = 1 << 16;
    pub const DIFF: u32 = 1 << 17;
    pub const ZST: u32 = 1 << 18;
    pub const RELOC: u32 = 1 << 19;
    /// harness-internal inconsistency (never a violation; exit 2)
    pub const HARNESS: u32 = 1 << 31;

    pub const NAMES: [(&str, u32, &str); 20] = [
        ("RET", RET, "C01"),
        ("CONTENTS", CONTENTS, "C01"),
        ("IDENT", IDENT, "C02"),
        ("LEDGER", LEDGER, "C03"),
        ("GARBAGE", GARBAGE, "C04"),
        ("DROP_FAULT", DROP_FAULT, "C05"),
        ("USER_FAULT", USER_FAULT, "C06"),
        ("VIEW", VIEW, "C07"),
        ("ITER", ITER, "C08"),
        ("DRAIN", DRAIN, "C09"),
        ("FORGET", FORGET, "C10"),
        ("PANIC_SPEC", PANIC_SPEC, "C11"),
        ("CTOR", CTOR, "C12"),
        ("CMP", CMP, "C13"),
        ("IO", IO, "C14"),
        ("EIO", EIO, "C16"),
        ("ALLOC", ALLOC, "C17"),
        ("DIFF", DIFF, "C18"),
        ("ZST", ZST, "C19"),
        ("RELOC", RELOC, "C20"),
    ];

    pub fn names(mask: u32) -> String {
        let mut v = Vec::new();
        for (n, m, _) in NAMES.iter() {
            if mask & m != 0 {
                v.push(*n);
            }
        }
        if mask & HARNESS != 0 {
            v.push("HARNESS");
        }
        v.join("|")
    }

    pub fn props(mask: u32) -> Vec<&'static str> {
        let mut v: Vec<&'static str> = Vec::new();
        for (_, m, p) in NAMES.iter() {
            if mask & m != 0 && !v.contains(p) {
                v.push(*p);
            }
        }
        v
    }

    pub fn mask_of_prop(prop: &str) -> u32 {
        let mut mask = 0;
        for (_, m, p) in NAMES.iter() {
            if *p == prop {
                mask |= m;
            }
        }
        mask
    }
}

#[derive(Clone, Debug)]
pub struct Failure {
    pub step: usize,
    pub classes: u32,
    pub op: Op,
    pub msg: String,
}

/// Rare-condition probes ("this branch was reached"), counted per run and summed per batch.
#[derive(Clone, Copy, PartialEq, Eq, Debug)]
#[repr(usize)]
pub enum Probe {
    DrainBackfill0 = 0,
    DrainBackfill1,
    DrainBackfill2,
    DrainBackfill3,
    DrainWrappedHole,
    FreeSpaceWrapped,
    ClonePanicSecondSegment,
    DropPanicSecondSegment,
    DropPanicNotFired,
    EqBranchLess,
    EqBranchGreater,
    EqBranchEqual,
    PushFullEvict,
    RemoveWrapped,
    ExtendSliceLongerThanN,
    ExtendSliceEvicts,
    MakeContigRotates,
    MakeContigEndAtArrayEnd,
    RangeDocPanic,
    IndexDocPanic,
    SwapDocPanic,
    ZeroCapOp,
    ForgetDrain,
    IterBothSegments,
    IoCopyRetryInterrupted,
    IoShortWrite,
    IoReadShortDst,
    IoConsumeOverLen,
    IoFillBufSecondSegment,
    IoWriterLapsReader,
    IoReadEmpty,
    ZstStartNearN,
    ZstAddModOverflow,
    PoisonApplied,
    StaleCopyPresent,
    UserPanicFired,
    Count,
}
pub const NPROBES: usize = Probe::Count as usize;
pub const PROBE_NAMES: [&str; NPROBES] = [
    "drain_backfill_0_copies",
    "drain_backfill_1_copy",
    "drain_backfill_2_copies",
    "drain_backfill_3_copies",
    "drain_hole_wraps_array_end",
    "free_space_wraps_array_end",
    "clone_panic_in_second_segment",
    "drop_panic_in_second_segment",
    "drop_panic_k_beyond_last_not_fired",
    "eq_branch_less",
    "eq_branch_greater",
    "eq_branch_equal",
    "push_on_full_evicts",
    "remove_with_wrapped_tail",
    "extend_from_slice_longer_than_n",
    "extend_from_slice_evicts_front",
    "make_contiguous_rotates",
    "make_contiguous_range_ends_at_array_end",
    "range_documented_panic",
    "index_documented_panic",
    "swap_documented_panic",
    "zero_capacity_operation",
    "drain_forgotten",
    "iterator_spans_both_segments",
    "io_copy_retried_after_interrupted",
    "io_short_write_peer",
    "io_read_short_destination",
    "io_consume_more_than_len",
    "io_fill_buf_returns_second_segment",
    "io_writer_laps_reader",
    "io_read_from_empty",
    "zst_start_within_2_of_n",
    "zst_position_sum_overflows_usize",
    "poison_applied",
    "stale_copy_present_in_free_slot",
    "user_code_panic_fired",
];

#[derive(Clone, Debug)]
pub struct RunStats {
    pub steps: u64,
    pub fault_configured: [u64; NKINDS],
    pub fault_fired: [u64; NKINDS],
    pub forgets: u64,
    pub poisons: u64,
    pub doc_panics: u64,
    pub probes: [u64; NPROBES],
    /// coverage cells hit non-trivially by this run (hashes)
    pub cells: Vec<u64>,
}

impl RunStats {
    pub fn new() -> Self {
        RunStats {
            steps: 0,
            fault_configured: [0; NKINDS],
            fault_fired: [0; NKINDS],
            forgets: 0,
            poisons: 0,
            doc_panics: 0,
            probes: [0; NPROBES],
            cells: Vec::new(),
        }
    }
    #[inline]
    pub fn probe(&mut self, p: Probe) {
        self.probes[p as usize] += 1;
    }
    #[inline]
    pub fn cell(&mut self, parts: [u64; 6]) {
        let mut f = Fnv::new();
        for p in parts {
            f.write_u64(p);
        }
        self.cells.push(f.0);
    }
}

pub struct Outcome {
    pub digest: u64,
    pub failure: Option<Failure>,
    pub stats: RunStats,
    pub trace: Option<String>,
}

/// Event trace. Always folded into the digest; kept as text only when asked.
pub struct Trace {
    pub fnv: Fnv,
    pub text: Option<String>,
    line: String,
}

impl Trace {
    pub fn new(keep: bool) -> Trace {
        Trace { fnv: Fnv::new(), text: if keep { Some(String::new()) } else { None }, line: String::with_capacity(256) }
    }
    #[inline]
    pub fn line(&mut self) -> &mut String {
        &mut self.line
    }
    pub fn commit(&mut self) {
        self.fnv.write(self.line.as_bytes());
        self.fnv.write(b"\n");
        if let Some(t) = &mut self.text {
            t.push_str(&self.line);
            t.push('\n');
        }
        self.line.clear();
    }
}

/// A panic that unwound out of harness code (outside an operation window). If it originated in
/// the crate under test (an accessor called by an observer) it is a violation of the given
/// classes; anything else is a harness error.
pub fn classify_stray_panic(classes: u32) -> (u32, String) {
    let m = crate::elem::LAST_PANIC.with(|p| p.borrow().clone());
    crate::elem::H.with(|h| {
        if let Ok(mut h) = h.try_borrow_mut() {
            h.in_op = false;
        }
    });
    if m.contains("/repo/") {
        (classes, format!("a crate accessor panicked while the harness was observing the buffer: {m}"))
    } else {
        (cls::HARNESS, format!("harness code panicked: {m}"))
    }
}
