//! cbsim — deterministic simulator with fault injection for `circular-buffer`.
//!
//! One integer (`--seed`, from VERIF_SEED) decides everything. Sub-commands:
//!   batch   run many generated scripts of one profile, report failures/statistics as JSON
//!   replay  execute one script file, report its outcome
//!   gen     print the script of one (seed, profile, run)
//!   digests print per-run trace digests (for determinism and differential checks)

mod alloc;
mod deque;
mod deque_cmp;
mod deque_ops;
mod deque_run;
mod deque_sess;
mod elem;
mod exec;
mod gen;
#[cfg(feature = "std")]
mod io_scn;
#[cfg(not(feature = "std"))]
#[path = "io_stub.rs"]
mod io_scn;
mod json;
mod minimize;
mod rng;
mod script;
mod zst_scn;

use exec::{cls, Failure, Outcome, RunStats, NPROBES, PROBE_NAMES};
use script::{Garbage, Scenario, Script};
use std::sync::atomic::{AtomicU64, Ordering};
use std::sync::Arc;
use std::time::Instant;

#[global_allocator]
static GLOBAL: alloc::SimAlloc = alloc::SimAlloc;

/// Executes one script in the current thread.
pub fn execute(script: &Script, keep_trace: bool) -> Outcome {
    match script.scenario {
        Scenario::Deque => match script.n {
            0 => deque_run::run_deque::<0>(script, keep_trace),
            1 => deque_run::run_deque::<1>(script, keep_trace),
            2 => deque_run::run_deque::<2>(script, keep_trace),
            3 => deque_run::run_deque::<3>(script, keep_trace),
            4 => deque_run::run_deque::<4>(script, keep_trace),
            5 => deque_run::run_deque::<5>(script, keep_trace),
            6 => deque_run::run_deque::<6>(script, keep_trace),
            8 => deque_run::run_deque::<8>(script, keep_trace),
            11 => deque_run::run_deque::<11>(script, keep_trace),
            40 => deque_run::run_deque::<40>(script, keep_trace),
            160 => deque_run::run_deque::<160>(script, keep_trace),
            n => harness_fail(format!("capacity {n} is not compiled for the deque scenario")),
        },
        Scenario::Io => io_scn::run(script, keep_trace),
        Scenario::Zst => zst_scn::run(script, keep_trace),
    }
}

pub fn harness_fail(msg: String) -> Outcome {
    Outcome { digest: 0, failure: Some(Failure { step: 0, classes: cls::HARNESS, op: script::Op::New, msg }), stats: RunStats::new(), trace: None }
}

/// How one run of a batch is executed (possibly several executions of the same script).
#[derive(Clone, Copy, PartialEq, Eq)]
pub enum Mode {
    /// one execution
    Plain,
    /// C04: unpoisoned + two different garbage fillings; digests must agree
    Garbage,
    /// C16: std::io vs embedded_io vs embedded_io_async executions; digests must agree
    Transports,
}

/// Executes a script under `mode`; returns the outcome that carries the verdict.
pub fn execute_mode(script: &Script, mode: Mode, keep_trace: bool) -> Outcome {
    match mode {
        Mode::Plain => execute(script, keep_trace),
        Mode::Garbage => {
            let mut base = execute(script, keep_trace);
            if base.failure.is_some() {
                // the script fails even without garbage. If *how* it fails depends on the bytes in
                // the unoccupied slots, the failure is (also) an observation of unoccupied storage.
                let sig = |o: &Outcome| o.failure.as_ref().map(|f| (f.step, f.msg.clone()));
                let b0 = sig(&base);
                for g in [Garbage::X5A, Garbage::Random] {
                    let mut s = script.clone();
                    s.garbage = g;
                    let o = execute(&s, false);
                    if sig(&o) != b0 {
                        if let Some(f) = &mut base.failure {
                            if f.classes & cls::HARNESS == 0 {
                                f.classes |= cls::GARBAGE;
                                f.msg = format!("{} [the failure changes with the garbage filling `{}`: unoccupied storage is observed]", f.msg, g.name());
                            }
                        }
                        break;
                    }
                }
                return base;
            }
            let mut r = rng::Rng::new(script.garbage_seed ^ 0x51ed_270b);
            let pats = [Garbage::Zero, Garbage::Ones, Garbage::X5A, Garbage::Random, Garbage::StaleDead, Garbage::LiveCopy, Garbage::Mixed];
            let i = r.below(pats.len() as u64) as usize;
            let j = (i + 1 + r.below(pats.len() as u64 - 1) as usize) % pats.len();
            let mut total = base;
            for g in [pats[i], pats[j]] {
                let mut s = script.clone();
                s.garbage = g;
                let o = execute(&s, keep_trace);
                total.stats.poisons += o.stats.poisons;
                total.stats.probes[exec::Probe::PoisonApplied as usize] += o.stats.probes[exec::Probe::PoisonApplied as usize];
                if let Some(mut f) = o.failure {
                    f.msg = format!("[garbage={}] {}", g.name(), f.msg);
                    // a failure that appears only under a garbage filling is an observation of
                    // unoccupied storage whatever else it is
                    f.classes |= cls::GARBAGE;
                    total.failure = Some(f);
                    total.trace = o.trace;
                    return total;
                }
                if o.digest != total.digest {
                    total.failure = Some(Failure {
                        step: script.steps.len(),
                        classes: cls::GARBAGE,
                        op: script::Op::New,
                        msg: format!("observable trace differs between unpoisoned run and garbage filling `{}` (digest {:016x} vs {:016x})", g.name(), total.digest, o.digest),
                    });
                    return total;
                }
            }
            total
        }
        Mode::Transports => io_scn::run_transports(script, keep_trace),
    }
}

struct Args {
    cmd: String,
    prop: String,
    seed: u64,
    runs: u64,
    start: u64,
    jobs: usize,
    out: Option<String>,
    digests: Option<String>,
    file: Option<String>,
    run: u64,
    trace: bool,
    mode: Mode,
    min_budget: usize,
    breadcrumb: bool,
    target: Option<String>,
}

fn parse_args() -> Args {
    let mut a = Args {
        cmd: String::new(),
        prop: "C01".into(),
        seed: 1,
        runs: 1000,
        start: 0,
        jobs: 16,
        out: None,
        digests: None,
        file: None,
        run: 0,
        trace: false,
        mode: Mode::Plain,
        min_budget: 3000,
        breadcrumb: false,
        target: None,
    };
    let v: Vec<String> = std::env::args().skip(1).collect();
    if v.is_empty() {
        usage();
    }
    a.cmd = v[0].clone();
    let mut i = 1;
    while i < v.len() {
        let need = |i: usize| -> String {
            if i + 1 >= v.len() {
                usage();
            }
            v[i + 1].clone()
        };
        match v[i].as_str() {
            "--prop" => {
                a.prop = need(i);
                i += 1;
            }
            "--seed" => {
                a.seed = need(i).parse().unwrap_or_else(|_| usage());
                i += 1;
            }
            "--runs" => {
                a.runs = need(i).parse().unwrap_or_else(|_| usage());
                i += 1;
            }
            "--start" => {
                a.start = need(i).parse().unwrap_or_else(|_| usage());
                i += 1;
            }
            "--jobs" => {
                a.jobs = need(i).parse().unwrap_or_else(|_| usage());
                i += 1;
            }
            "--out" => {
                a.out = Some(need(i));
                i += 1;
            }
            "--digests" => {
                a.digests = Some(need(i));
                i += 1;
            }
            "--run" => {
                a.run = need(i).parse().unwrap_or_else(|_| usage());
                i += 1;
            }
            "--min-budget" => {
                a.min_budget = need(i).parse().unwrap_or_else(|_| usage());
                i += 1;
            }
            "--target" => {
                a.target = Some(need(i));
                i += 1;
            }
            "--mode" => {
                a.mode = match need(i).as_str() {
                    "plain" => Mode::Plain,
                    "garbage" => Mode::Garbage,
                    "transports" => Mode::Transports,
                    _ => usage(),
                };
                i += 1;
            }
            "--trace" => a.trace = true,
            "--breadcrumb" => a.breadcrumb = true,
            s if !s.starts_with("--") && a.file.is_none() => a.file = Some(s.to_string()),
            _ => usage(),
        }
        i += 1;
    }
    a
}

/// start time (ms, never 0) of the execution the main thread is performing while minimising
static MAIN_BEAT: AtomicU64 = AtomicU64::new(0);

fn wd_limit_ms() -> u64 {
    std::env::var("CBSIM_WATCHDOG_MS").ok().and_then(|s| s.parse().ok()).unwrap_or(60_000)
}

fn usage() -> ! {
    eprintln!("usage: cbsim batch|replay|gen|digests [--prop Cxx] [--seed S] [--runs R] [--start I] [--jobs J] [--mode plain|garbage|transports] [--out FILE] [--digests FILE] [--run I] [--trace] [file]");
    std::process::exit(2)
}

/// Generates the script of one run of the profile that serves `prop`.
pub fn generate(prop: &str, seed: u64, run: u64) -> Option<Script> {
    match prop {
        "C14" | "C16" => Some(io_scn::gen_io(seed, prop, run)),
        "C19" => Some(zst_scn::gen_zst(seed, run)),
        "C01io" | "C02io" | "C04io" | "C06io" | "C10io" | "C09io" | "C11io" | "C13io" | "C17io" | "C18io" | "C20io" => Some(io_scn::gen_io(seed, prop, run)),
        "C10zst" => Some(zst_scn::gen_zst_for(seed, run, true)),
        "C01zst" | "C03zst" | "C06zst" | "C02zst" | "C07zst" | "C08zst" | "C09zst" | "C11zst" | "C12zst" | "C13zst" | "C17zst" | "C18zst" => Some(zst_scn::gen_zst(seed, run)),
        _ => gen::profile(prop).map(|p| gen::gen_deque(seed, &p, run)),
    }
}

struct RunFail {
    run: u64,
    failure: Failure,
}

struct WorkerOut {
    stats: RunStats,
    fails: Vec<RunFail>,
    nfails: u64,
    digests: Vec<(u64, u64)>,
    steps: u64,
}

fn add_stats(a: &mut RunStats, b: &RunStats) {
    a.steps += b.steps;
    for k in 0..elem::NKINDS {
        a.fault_configured[k] += b.fault_configured[k];
        a.fault_fired[k] += b.fault_fired[k];
    }
    a.forgets += b.forgets;
    a.poisons += b.poisons;
    a.doc_panics += b.doc_panics;
    for k in 0..NPROBES {
        a.probes[k] += b.probes[k];
    }
}

fn main() {
    let args = parse_args();
    elem::install_panic_hook();
    assert!(std::mem::size_of::<elem::Tracked>() == if cfg!(feature = "big_elem") { 128 } else { 16 });
    match args.cmd.as_str() {
        "batch" => {
            // the panic hook is silent (panics are simulation events); a panic of the main thread
            // itself is a harness error and must say so
            if std::panic::catch_unwind(std::panic::AssertUnwindSafe(|| cmd_batch(&args))).is_err() {
                println!("HARNESS main thread panicked: {}", elem::LAST_PANIC.with(|p| p.borrow().clone()));
                std::process::exit(2);
            }
        }
        "replay" => cmd_replay(&args),
        "gen" => {
            let s = generate(&args.prop, args.seed, args.run).unwrap_or_else(|| usage());
            print!("{}", s.to_text());
        }
        _ => usage(),
    }
}

fn target_mask(args: &Args) -> u32 {
    let p = args.target.clone().unwrap_or_else(|| args.prop.clone());
    let p = &p[..3.min(p.len())];
    cls::mask_of_prop(p)
}

fn cmd_replay(args: &Args) {
    let path = args.file.clone().unwrap_or_else(|| usage());
    let text = std::fs::read_to_string(&path).unwrap_or_else(|e| {
        eprintln!("cannot read {path}: {e}");
        std::process::exit(2)
    });
    let script = Script::parse(&text).unwrap_or_else(|e| {
        eprintln!("cannot parse {path}: {e}");
        std::process::exit(2)
    });
    let o = execute_mode(&script, args.mode, args.trace);
    if let Some(t) = &o.trace {
        print!("{t}");
    }
    println!("digest {:016x}", o.digest);
    match &o.failure {
        None => {
            println!("outcome ok");
        }
        Some(f) => {
            println!("outcome FAIL step={} op={} classes={} props={}", f.step, f.op.name(), cls::names(f.classes), cls::props(f.classes).join(","));
            println!("message {}", f.msg);
            if f.classes & cls::HARNESS != 0 {
                std::process::exit(2);
            }
            std::process::exit(1);
        }
    }
}

fn cmd_batch(args: &Args) {
    let t0 = Instant::now();
    if generate(&args.prop, args.seed, 0).is_none() {
        eprintln!("no profile for {}", args.prop);
        std::process::exit(2);
    }
    let jobs = args.jobs.max(1);
    let beats: Arc<Vec<AtomicU64>> = Arc::new((0..jobs).map(|_| AtomicU64::new(u64::MAX)).collect());
    let beat_time: Arc<Vec<AtomicU64>> = Arc::new((0..jobs).map(|_| AtomicU64::new(0)).collect());
    // watchdog: the only reader of real time; it can end a run, never alter one
    // (not under Miri, which insists that every thread is joined)
    if !cfg!(miri) {
        let beats = beats.clone();
        let beat_time = beat_time.clone();
        std::thread::spawn(move || loop {
            std::thread::sleep(std::time::Duration::from_millis(500));
            let now = t0.elapsed().as_millis() as u64;
            for w in 0..beats.len() {
                let r = beats[w].load(Ordering::Relaxed);
                let t = beat_time[w].load(Ordering::Relaxed);
                    if r != u64::MAX && now.saturating_sub(t) > wd_limit_ms() {
                    println!("HANG run={r}");
                    std::process::exit(3);
                }
            }
            let m = MAIN_BEAT.load(Ordering::Relaxed);
            if m != 0 && now.saturating_sub(m) > wd_limit_ms() {
                println!("HANG minimise");
                std::process::exit(3);
            }
        });
    }
    let mask = target_mask(args);
    let keep_digests = args.digests.is_some();
    let mut outs: Vec<WorkerOut> = Vec::new();
    std::thread::scope(|sc| {
        let mut hs = Vec::new();
        for w in 0..jobs {
            let beats = beats.clone();
            let beat_time = beat_time.clone();
            let args = &*args;
            hs.push(sc.spawn(move || {
                let mut wo = WorkerOut { stats: RunStats::new(), fails: Vec::new(), nfails: 0, digests: Vec::new(), steps: 0 };
                let mut i = args.start + w as u64;
                let mut cell_limit: usize = 1 << 16;
                while i < args.start + args.runs {
                    beats[w].store(i, Ordering::Relaxed);
                    beat_time[w].store(t0.elapsed().as_millis() as u64, Ordering::Relaxed);
                    if args.breadcrumb {
                        eprintln!("RUN {i}");
                    }
                    let script = generate(&args.prop, args.seed, i).unwrap();
                    // a panic that escapes the executor is a harness error of this run, reported
                    // with its own message (the panic hook is silent)
                    let o = match std::panic::catch_unwind(std::panic::AssertUnwindSafe(|| execute_mode(&script, args.mode, false))) {
                        Ok(o) => o,
                        Err(_) => {
                            // crate code (e.g. a Drop) that panicked outside a window is still a
                            // violation of "panics only when documented"; anything else is ours
                            let (c, m) = exec::classify_stray_panic(cls::PANIC_SPEC);
                            let mut o = harness_fail(format!("run {i}: {m}"));
                            if let Some(f) = &mut o.failure {
                                f.classes = c;
                            }
                            o
                        }
                    };
                    wo.steps += o.stats.steps as u64;
                    add_stats(&mut wo.stats, &o.stats);
                    wo.stats.cells.extend_from_slice(&o.stats.cells);
                    if wo.stats.cells.len() > cell_limit {
                        wo.stats.cells.sort_unstable();
                        wo.stats.cells.dedup();
                        // amortise: next compaction only after the set could have doubled
                        cell_limit = 2 * wo.stats.cells.len() + (1 << 16);
                    }
                    if keep_digests {
                        wo.digests.push((i, o.digest));
                    }
                    if let Some(f) = o.failure {
                        wo.nfails += 1;
                        if wo.fails.len() < 32 {
                            wo.fails.push(RunFail { run: i, failure: f });
                        }
                    }
                    i += jobs as u64;
                }
                beats[w].store(u64::MAX, Ordering::Relaxed);
                wo
            }));
        }
        for h in hs {
            match h.join() {
                Ok(wo) => outs.push(wo),
                Err(_) => {
                    println!("HARNESS worker thread panicked outside an operation window: {}", elem::LAST_PANIC.with(|p| p.borrow().clone()));
                    std::process::exit(2);
                }
            }
        }
    });
    // merge in run-index order: independent of the worker count
    let mut stats = RunStats::new();
    let mut fails: Vec<RunFail> = Vec::new();
    let mut nfails = 0u64;
    let mut digests: Vec<(u64, u64)> = Vec::new();
    for wo in outs {
        add_stats(&mut stats, &wo.stats);
        stats.cells.extend(wo.stats.cells);
        fails.extend(wo.fails);
        nfails += wo.nfails;
        digests.extend(wo.digests);
    }
    stats.cells.sort_unstable();
    stats.cells.dedup();
    fails.sort_by_key(|f| f.run);
    digests.sort_unstable();
    let run_wall = t0.elapsed().as_secs_f64();
    if let Some(p) = &args.digests {
        let mut s = String::with_capacity(digests.len() * 24);
        for (i, d) in &digests {
            s.push_str(&format!("{i} {d:016x}\n"));
        }
        std::fs::write(p, s).expect("write digests");
    }
    let mut dd = rng::Fnv::new();
    for (_, d) in &digests {
        dd.write_u64(*d);
    }

    let harness: Vec<&RunFail> = fails.iter().filter(|f| f.failure.classes & cls::HARNESS != 0).collect();
    let viol: Vec<&RunFail> = fails.iter().filter(|f| f.failure.classes & mask != 0 && f.failure.classes & cls::HARNESS == 0).collect();
    let foreign: Vec<&RunFail> = fails.iter().filter(|f| f.failure.classes & mask == 0 && f.failure.classes & cls::HARNESS == 0).collect();

    let mut j = json::Obj::new();
    j.str("prop", &args.prop);
    j.num("seed", args.seed as f64);
    j.num("runs", args.runs as f64);
    j.num("start", args.start as f64);
    j.num("jobs", jobs as f64);
    j.num("steps", stats.steps as f64);
    j.num("run_wall_s", run_wall);
    j.num("failures_total", nfails as f64);
    j.num("violations_listed", viol.len() as f64);
    j.num("foreign_listed", foreign.len() as f64);
    j.num("harness_errors", harness.len() as f64);
    j.num("distinct_cells", stats.cells.len() as f64);
    j.num("forgets", stats.forgets as f64);
    j.num("poisons", stats.poisons as f64);
    j.num("doc_panics", stats.doc_panics as f64);
    j.str("digest_of_digests", &format!("{:016x}", dd.0));
    let mut fc = json::Obj::new();
    let mut ff = json::Obj::new();
    for k in 0..elem::NKINDS {
        fc.num(elem::KIND_NAMES[k], stats.fault_configured[k] as f64);
        ff.num(elem::KIND_NAMES[k], stats.fault_fired[k] as f64);
    }
    j.obj("fault_configured", fc);
    j.obj("fault_fired", ff);
    let mut pr = json::Obj::new();
    for k in 0..NPROBES {
        pr.num(PROBE_NAMES[k], stats.probes[k] as f64);
    }
    j.obj("probes", pr);
    // samples: a few scripts verbatim
    let mut samples = Vec::new();
    for k in 0..3u64 {
        let i = args.start + (k * 7919) % args.runs.max(1);
        if let Some(s) = generate(&args.prop, args.seed, i) {
            samples.push(json::Val::Str(s.to_text()));
        }
    }
    j.arr("samples", samples);

    let describe = |rf: &RunFail| -> json::Obj {
        let mut o = json::Obj::new();
        o.num("run", rf.run as f64);
        o.num("step", rf.failure.step as f64);
        o.str("op", rf.failure.op.name());
        o.str("classes", &cls::names(rf.failure.classes));
        o.str("props", &cls::props(rf.failure.classes).join(","));
        o.str("msg", &rf.failure.msg);
        o
    };
    j.arr("foreign", foreign.iter().take(5).map(|f| json::Val::Obj(describe(f))).collect());
    j.arr("harness", harness.iter().take(5).map(|f| json::Val::Obj(describe(f))).collect());

    // distinct violation signatures (op + class), each minimised
    let mut vlist = Vec::new();
    let mut seen: Vec<(script::Op, u32)> = Vec::new();
    for rf in viol.iter() {
        let sig = (rf.failure.op, rf.failure.classes & mask);
        if seen.contains(&sig) || seen.len() >= 6 {
            continue;
        }
        seen.push(sig);
        let script = generate(&args.prop, args.seed, rf.run).unwrap();
        let mode = args.mode;
        let mut pred = |s: &Script| -> bool {
            MAIN_BEAT.store(t0.elapsed().as_millis() as u64 + 1, Ordering::Relaxed);
            let o = execute_mode(s, mode, false);
            MAIN_BEAT.store(0, Ordering::Relaxed);
            matches!(&o.failure, Some(f) if f.classes & mask != 0 && f.classes & cls::HARNESS == 0)
        };
        let (min, ms) = minimize::minimize(&script, args.min_budget, &mut pred);
        let o = execute_mode(&min, args.mode, true);
        let mut d = describe(rf);
        d.str("script", &script.to_text());
        d.str("min_script", &min.to_text());
        d.num("min_execs", ms.execs as f64);
        d.num("steps_before", ms.from_steps as f64);
        d.num("steps_after", ms.to_steps as f64);
        if let Some(f) = &o.failure {
            d.str("min_msg", &f.msg);
            d.str("min_classes", &cls::names(f.classes));
            d.str("min_op", f.op.name());
            d.num("min_step", f.step as f64);
            d.num("min_n", min.n as f64);
        }
        d.str("min_trace", o.trace.as_deref().unwrap_or(""));
        vlist.push(json::Val::Obj(d));
    }
    j.arr("violations", vlist);
    j.num("wall_s", t0.elapsed().as_secs_f64());
    let text = j.to_string();
    match &args.out {
        Some(p) => std::fs::write(p, &text).expect("write out"),
        None => println!("{text}"),
    }
    if !harness.is_empty() {
        std::process::exit(2);
    }
    if !viol.is_empty() {
        std::process::exit(1);
    }
}
