//! The `io` scenario (C14, C16; also feeds C04/C17/C18): a byte buffer used as a lossy pipe
//! between a producer and a consumer, driven through `std::io`, `embedded_io` or
//! `embedded_io_async` (own poll-once executor), with faulty stream peers for the provided
//! methods layered on the crate's required ones. The step order of a script *is* the task
//! schedule (producer runs / consumer runs / stalls are chosen by the seeded generator).

use crate::elem::{window, HookScope, PanicKind};
use crate::exec::{cls, Failure, Outcome, Probe, RunStats, Trace};
use crate::rng::{mix, Rng};
use crate::script::{Garbage, Op, Scenario, Script, Step};
use circular_buffer::CircularBuffer;
use std::collections::VecDeque;
use std::fmt::Write as _;

pub const IO_NS: [usize; 10] = [0, 1, 2, 3, 4, 5, 8, 16, 64, 200];

pub fn run(script: &Script, keep_trace: bool) -> Outcome {
    match script.n {
        0 => run_n::<0>(script, keep_trace),
        1 => run_n::<1>(script, keep_trace),
        2 => run_n::<2>(script, keep_trace),
        3 => run_n::<3>(script, keep_trace),
        4 => run_n::<4>(script, keep_trace),
        5 => run_n::<5>(script, keep_trace),
        8 => run_n::<8>(script, keep_trace),
        16 => run_n::<16>(script, keep_trace),
        64 => run_n::<64>(script, keep_trace),
        200 => run_n::<200>(script, keep_trace),
        n => crate::harness_fail(format!("capacity {n} is not compiled for the io scenario")),
    }
}

pub fn transports_compiled() -> Vec<u8> {
    let mut v = vec![0u8];
    if cfg!(feature = "eio") {
        v.push(1);
    }
    if cfg!(feature = "eioa") {
        v.push(2);
    }
    v
}

/// C16: the same script through every compiled transport; traces must be identical.
pub fn run_transports(script: &Script, keep_trace: bool) -> Outcome {
    let mut s0 = script.clone();
    s0.transport = 0;
    let mut base = run(&s0, keep_trace);
    let ts = transports_compiled();
    if base.failure.as_ref().map(|f| f.classes & cls::IO == 0).unwrap_or(false) {
        // not an io deviation (e.g. the comparison oracle): nothing for C16 to add
        return base;
    }
    if base.failure.is_some() {
        // std::io itself deviates (that is C14's finding). C16 also says the embedded impls
        // "never fail": if they deviate from the model on the same script, say so as well.
        for t in ts.iter().skip(1) {
            let mut s = script.clone();
            s.transport = *t;
            if let Some(f) = run(&s, false).failure {
                if f.classes & cls::HARNESS == 0 {
                    if let Some(bf) = &mut base.failure {
                        bf.classes |= cls::EIO;
                        bf.msg = format!("{} || [transport {}] {}", bf.msg, tname(*t), f.msg);
                    }
                    break;
                }
            }
        }
        return base;
    }
    if ts.len() < 2 {
        return crate::harness_fail("transports mode needs a build with feature eio and/or eioa".into());
    }
    let mut total = base;
    for t in ts.into_iter().skip(1) {
        let mut s = script.clone();
        s.transport = t;
        let o = run(&s, keep_trace);
        total.stats.steps += o.stats.steps;
        if let Some(mut f) = o.failure {
            f.msg = format!("[transport {}] {}", tname(t), f.msg);
            if f.classes & cls::HARNESS == 0 {
                f.classes |= cls::EIO;
            }
            total.failure = Some(f);
            total.trace = o.trace;
            return total;
        }
        if o.digest != total.digest {
            total.failure = Some(Failure {
                step: script.steps.len(),
                classes: cls::EIO,
                op: Op::IoWrite,
                msg: format!("trace through {} differs from the std::io trace (digest {:016x} vs {:016x})", tname(t), o.digest, total.digest),
            });
            total.trace = o.trace;
            return total;
        }
    }
    total
}

fn tname(t: u8) -> &'static str {
    match t {
        0 => "std::io",
        1 => "embedded_io",
        _ => "embedded_io_async",
    }
}

// ------------------------------------------------------------------ executor for async calls
#[cfg(feature = "eioa")]
mod exec1 {
    use std::future::Future;
    use std::pin::pin;
    use std::task::{Context, Poll, RawWaker, RawWakerVTable, Waker};

    fn raw() -> RawWaker {
        fn no(_: *const ()) {}
        fn cl(_: *const ()) -> RawWaker {
            raw()
        }
        static VT: RawWakerVTable = RawWakerVTable::new(cl, no, no, no);
        RawWaker::new(std::ptr::null(), &VT)
    }

    /// Polls the future exactly once with a no-op waker. `None` = it returned `Pending`.
    pub fn poll_once<F: Future>(f: F) -> Option<F::Output> {
        let w = unsafe { Waker::from_raw(raw()) };
        let mut cx = Context::from_waker(&w);
        let mut f = pin!(f);
        match f.as_mut().poll(&mut cx) {
            Poll::Ready(v) => Some(v),
            Poll::Pending => None,
        }
    }
}

// ------------------------------------------------------------------ faulty peers (seam S6)
pub struct FaultyReader {
    data: Vec<u8>,
    pos: usize,
    plan: Vec<u32>,
    pi: usize,
    pub delivered: usize,
    pub interrupts: u32,
    pub failed: bool,
    streak: u32,
}

impl std::io::Read for FaultyReader {
    fn read(&mut self, dst: &mut [u8]) -> std::io::Result<usize> {
        let _h = HookScope::enter();
        let rem = self.data.len() - self.pos;
        if rem == 0 || dst.is_empty() {
            return Ok(0);
        }
        let p = if self.plan.is_empty() { 7 } else { self.plan[self.pi % self.plan.len()] };
        self.pi += 1;
        let n = match p % 8 {
            5 if self.streak < 3 => {
                // EINTR is transient: never more than three in a row
                self.interrupts += 1;
                self.streak += 1;
                return Err(std::io::Error::from(std::io::ErrorKind::Interrupted));
            }
            6 if (p / 8) % 3 == 0 => {
                self.failed = true;
                return Err(std::io::Error::new(std::io::ErrorKind::Other, "injected upstream failure"));
            }
            0..=4 => (1 + (p / 8) as usize % 9).min(rem).min(dst.len()),
            _ => rem.min(dst.len()),
        };
        self.streak = 0;
        dst[..n].copy_from_slice(&self.data[self.pos..self.pos + n]);
        self.pos += n;
        self.delivered += n;
        Ok(n)
    }
}

pub struct FaultyWriter {
    pub received: Vec<u8>,
    plan: Vec<u32>,
    pi: usize,
    pub shorts: u32,
    pub interrupts: u32,
    streak: u32,
}

impl std::io::Write for FaultyWriter {
    fn write(&mut self, src: &[u8]) -> std::io::Result<usize> {
        let _h = HookScope::enter();
        if src.is_empty() {
            return Ok(0);
        }
        let p = if self.plan.is_empty() { 7 } else { self.plan[self.pi % self.plan.len()] };
        self.pi += 1;
        let n = match p % 8 {
            5 if self.streak < 3 => {
                self.interrupts += 1;
                self.streak += 1;
                return Err(std::io::Error::from(std::io::ErrorKind::Interrupted));
            }
            6 if (p / 8) % 3 == 0 => return Err(std::io::Error::new(std::io::ErrorKind::Other, "injected downstream failure")),
            4 if (p / 8) % 4 == 0 => return Ok(0),
            0..=3 => {
                self.shorts += 1;
                (1 + (p / 8) as usize % 5).min(src.len())
            }
            _ => src.len(),
        };
        self.streak = 0;
        self.received.extend_from_slice(&src[..n]);
        Ok(n)
    }
    fn flush(&mut self) -> std::io::Result<()> {
        Ok(())
    }
}

struct IoEx<const N: usize> {
    buf: Box<CircularBuffer<N, u8>>,
    model: VecDeque<u8>,
    produced: u64,
    trace: Trace,
    fail: Option<Failure>,
    stats: RunStats,
    transport: u8,
    garbage: Garbage,
    grng: Rng,
    allocs: u32,
    cur: usize,
    cur_op: Op,
    panicked: bool,
    /// a drain was leaked earlier in this run
    forgot: bool,
}

fn run_n<const N: usize>(script: &Script, keep_trace: bool) -> Outcome {
    crate::elem::H.with(|h| h.borrow_mut().reset());
    let _ = crate::alloc::take_op_allocs();
    crate::alloc::set_fresh(true, (script.garbage_seed as u8) | 1);
    if !transports_compiled().contains(&script.transport) {
        return crate::harness_fail(format!("transport {} is not compiled into this build", script.transport));
    }
    let buf: Box<CircularBuffer<N, u8>> = {
        #[cfg(feature = "alloc")]
        {
            if script.boxed {
                CircularBuffer::<N, u8>::boxed()
            } else {
                Box::new(CircularBuffer::new())
            }
        }
        #[cfg(not(feature = "alloc"))]
        {
            Box::new(CircularBuffer::new())
        }
    };
    let mut ex = IoEx::<N> {
        buf,
        model: VecDeque::new(),
        produced: 0,
        trace: Trace::new(keep_trace),
        fail: None,
        stats: RunStats::new(),
        transport: script.transport,
        garbage: script.garbage,
        grng: Rng::new(script.garbage_seed ^ 0x1f83d9abfb41bd6b),
        allocs: 0,
        cur: 0,
        cur_op: Op::IoWrite,
        panicked: false,
        forgot: false,
    };
    ex.poison();
    for (i, st) in script.steps.iter().enumerate() {
        let r = std::panic::catch_unwind(std::panic::AssertUnwindSafe(|| ex.step(i, st)));
        if r.is_err() {
            let own = ex.own();
            let (c, m) = crate::exec::classify_stray_panic(own | cls::PANIC_SPEC);
            ex.fail(c, m);
        }
        if ex.fail.is_some() {
            break;
        }
    }
    crate::alloc::set_fresh(false, 0);
    let out = Outcome { digest: ex.trace.fnv.0, failure: ex.fail.take(), stats: std::mem::replace(&mut ex.stats, RunStats::new()), trace: ex.trace.text.take() };
    if out.failure.is_some() {
        // the buffer may be corrupt: never run the crate's Drop on it outside a window
        std::mem::forget(ex);
    } else {
        let buf = ex.buf;
        let r = window(move || drop(buf));
        if r.is_err() {
            let mut o = out;
            o.failure = Some(Failure { step: script.steps.len(), classes: cls::IO | cls::PANIC_SPEC, op: Op::DropBuf, msg: "dropping the byte buffer panicked".into() });
            return o;
        }
    }
    out
}

/// Result of one transport call: Ok(value) / Err(description) / Pending.
enum Tr<T> {
    Ok(T),
    Err(String),
    #[allow(dead_code)]
    Pending,
}

impl<const N: usize> IoEx<N> {
    fn fail(&mut self, classes: u32, msg: String) {
        if self.fail.is_none() {
            self.fail = Some(Failure { step: self.cur, classes, op: self.cur_op, msg });
        }
    }

    fn own(&self) -> u32 {
        if self.transport == 0 {
            cls::IO
        } else {
            cls::EIO
        }
    }

    fn stamp(&mut self, k: usize) -> Vec<u8> {
        let v: Vec<u8> = (0..k as u64).map(|i| ((self.produced + i) % 251) as u8).collect();
        self.produced += k as u64;
        v
    }

    fn model_write(&mut self, src: &[u8]) {
        if !self.model.is_empty() && self.model.len() + src.len() > N && !src.is_empty() {
            self.stats.probe(Probe::IoWriterLapsReader);
        }
        for b in src {
            if N == 0 {
                break;
            }
            if self.model.len() == N {
                self.model.pop_front();
            }
            self.model.push_back(*b);
        }
    }

    /// Runs one crate call in an operation window; an unwinding call is a violation
    /// ("none of these ever ... panics").
    fn call<R>(&mut self, f: impl FnOnce(&mut CircularBuffer<N, u8>) -> R) -> Option<R> {
        let b: &mut CircularBuffer<N, u8> = &mut self.buf;
        let r = window(|| f(b));
        self.allocs += crate::alloc::take_op_allocs();
        match r {
            Ok(v) => Some(v),
            Err(PanicKind::Injected(_)) => {
                self.fail(cls::HARNESS, "injected fault in the io scenario".into());
                None
            }
            Err(PanicKind::Other(m)) => {
                self.panicked = true;
                // generic deque operations on bytes report to their own properties
                let own = match self.cur_op {
                    Op::PushBack | Op::PushFront | Op::TryPushBack | Op::TryPushFront => cls::RET | cls::IDENT,
                    Op::PopBack | Op::PopFront | Op::Remove | Op::SwapRemoveBack | Op::SwapRemoveFront | Op::TruncateBack | Op::TruncateFront | Op::Clear | Op::MakeContiguous
                    | Op::ExtendFromSlice | Op::Fill | Op::IoExtendRef => cls::RET,
                    _ => self.own(),
                };
                // C10: after a leaked drain the buffer "behaves normally"
                let fam = if self.forgot { cls::FORGET } else { 0 };
                self.fail(own | fam | cls::PANIC_SPEC, format!("{} panicked: {m}", self.cur_op.name()));
                None
            }
        }
    }

    // ---- the five required methods through the selected transport
    fn t_write(&mut self, src: &[u8]) -> Option<Tr<usize>> {
        match self.transport {
            0 => self.call(|b| match std::io::Write::write(b, src) {
                Ok(n) => Tr::Ok(n),
                Err(e) => Tr::Err(e.to_string()),
            }),
            #[cfg(feature = "eio")]
            1 => self.call(|b| match embedded_io::Write::write(b, src) {
                Ok(n) => Tr::Ok(n),
                Err(e) => match e {},
            }),
            #[cfg(feature = "eioa")]
            2 => self.call(|b| match exec1::poll_once(embedded_io_async::Write::write(b, src)) {
                Some(Ok(n)) => Tr::Ok(n),
                Some(Err(e)) => match e {},
                None => Tr::Pending,
            }),
            _ => None,
        }
    }

    fn t_flush(&mut self) -> Option<Tr<()>> {
        match self.transport {
            0 => self.call(|b| match std::io::Write::flush(b) {
                Ok(()) => Tr::Ok(()),
                Err(e) => Tr::Err(e.to_string()),
            }),
            #[cfg(feature = "eio")]
            1 => self.call(|b| match embedded_io::Write::flush(b) {
                Ok(()) => Tr::Ok(()),
                Err(e) => match e {},
            }),
            #[cfg(feature = "eioa")]
            2 => self.call(|b| match exec1::poll_once(embedded_io_async::Write::flush(b)) {
                Some(Ok(())) => Tr::Ok(()),
                Some(Err(e)) => match e {},
                None => Tr::Pending,
            }),
            _ => None,
        }
    }

    fn t_read(&mut self, dst: &mut [u8]) -> Option<Tr<usize>> {
        match self.transport {
            0 => self.call(|b| match std::io::Read::read(b, dst) {
                Ok(n) => Tr::Ok(n),
                Err(e) => Tr::Err(e.to_string()),
            }),
            #[cfg(feature = "eio")]
            1 => self.call(|b| match embedded_io::Read::read(b, dst) {
                Ok(n) => Tr::Ok(n),
                Err(e) => match e {},
            }),
            #[cfg(feature = "eioa")]
            2 => self.call(|b| match exec1::poll_once(embedded_io_async::Read::read(b, dst)) {
                Some(Ok(n)) => Tr::Ok(n),
                Some(Err(e)) => match e {},
                None => Tr::Pending,
            }),
            _ => None,
        }
    }

    /// fill_buf: returns a copy of the returned slice.
    fn t_fill_buf(&mut self) -> Option<Tr<Vec<u8>>> {
        fn cp(s: &[u8]) -> Vec<u8> {
            let _h = HookScope::enter();
            s.to_vec()
        }
        match self.transport {
            0 => self.call(|b| match std::io::BufRead::fill_buf(b) {
                Ok(s) => Tr::Ok(cp(s)),
                Err(e) => Tr::Err(e.to_string()),
            }),
            #[cfg(feature = "eio")]
            1 => self.call(|b| match embedded_io::BufRead::fill_buf(b) {
                Ok(s) => Tr::Ok(cp(s)),
                Err(e) => match e {},
            }),
            #[cfg(feature = "eioa")]
            2 => self.call(|b| match exec1::poll_once(embedded_io_async::BufRead::fill_buf(b)) {
                Some(Ok(s)) => Tr::Ok(cp(s)),
                Some(Err(e)) => match e {},
                None => Tr::Pending,
            }),
            _ => None,
        }
    }

    fn t_consume(&mut self, k: usize) -> Option<()> {
        match self.transport {
            0 => self.call(|b| std::io::BufRead::consume(b, k)),
            #[cfg(feature = "eio")]
            1 => self.call(|b| embedded_io::BufRead::consume(b, k)),
            #[cfg(feature = "eioa")]
            2 => self.call(|b| embedded_io_async::BufRead::consume(b, k)),
            _ => None,
        }
    }

    /// Unwraps a transport result that must be Ok.
    fn must<T>(&mut self, r: Option<Tr<T>>, what: &str) -> Option<T> {
        match r? {
            Tr::Ok(v) => Some(v),
            Tr::Err(e) => {
                let own = self.own();
                self.fail(own, format!("{what} returned an error: {e}"));
                None
            }
            Tr::Pending => {
                self.fail(cls::EIO, format!("{what} returned Poll::Pending on the first poll"));
                None
            }
        }
    }

    fn model_vec(&self) -> Vec<u8> {
        self.model.iter().copied().collect()
    }

    fn step(&mut self, i: usize, st: &Step) {
        self.cur = i;
        self.cur_op = st.op;
        self.allocs = 0;
        self.panicked = false;
        self.stats.steps += 1;
        let own = self.own();
        let pre_layout = self.buf.verif_layout();
        let pre_len = self.model.len();
        let _ = write!(self.trace.line(), "{} {}", i, st.op.name());
        if N == 0 {
            self.stats.probe(Probe::ZeroCapOp);
        }
        let mut may_alloc = false;
        let mut argclass = 0u64;
        let mut generic = false;
        // identity of a byte = its value, when all buffered values are distinct (stamps are)
        let pre_addr: Vec<(u8, usize)> = self.buf.iter().map(|b| (*b, b as *const u8 as usize)).collect();
        let distinct = {
            let mut seen = [false; 256];
            pre_addr.iter().all(|(v, _)| !std::mem::replace(&mut seen[*v as usize], true))
        };
        match st.op {
            Op::IoWrite | Op::IoWriteAll | Op::IoWriteFmt | Op::IoExtendRef | Op::IoLayout => {
                let k = st.a;
                argclass = lencls(k, N - pre_len.min(N), N);
                let data = if st.op == Op::IoWriteFmt {
                    // write!() goes through UTF-8 text: keep it ASCII
                    let v: Vec<u8> = (0..k as u64).map(|i| b'a' + ((self.produced + i) % 26) as u8).collect();
                    self.produced += k as u64;
                    v
                } else {
                    self.stamp(k)
                };
                match st.op {
                    Op::IoWrite | Op::IoLayout => {
                        let r = self.t_write(&data);
                        if let Some(n) = self.must(r, "write") {
                            let _ = write!(self.trace.line(), " r={n}");
                            if n != k {
                                self.fail(own, format!("write of {k} bytes reported {n}"));
                            }
                            self.model_write(&data);
                        }
                        if st.op == Op::IoLayout {
                            // consume the same amount again from the front: rotates the layout
                            let mut dst = vec![0u8; st.b];
                            let r = self.t_read(&mut dst);
                            if let Some(n) = self.must(r, "read") {
                                for _ in 0..n {
                                    self.model.pop_front();
                                }
                            }
                        }
                    }
                    Op::IoWriteAll => {
                        if self.transport == 0 {
                            let r = self.call(|b| std::io::Write::write_all(b, &data).map_err(|e| e.to_string()));
                            if let Some(r) = r {
                                if let Err(e) = r {
                                    self.fail(own, format!("write_all returned an error: {e}"));
                                }
                                self.model_write(&data);
                            }
                        } else {
                            self.eio_write_all(&data);
                        }
                    }
                    Op::IoWriteFmt => {
                        let s = String::from_utf8(data.clone()).unwrap_or_default();
                        let r = self.call(|b| std::io::Write::write_fmt(b, format_args!("{s}")).map_err(|e| e.to_string()));
                        if let Some(r) = r {
                            if let Err(e) = r {
                                self.fail(own, format!("write! returned an error: {e}"));
                            }
                            self.model_write(&data);
                        }
                    }
                    _ => {
                        generic = true; // Extend<&u8> is a deque operation, not an io one
                        if st.b == 0 {
                            let r = self.call(|b| b.extend(data.iter()));
                            if r.is_some() {
                                self.model_write(&data);
                            }
                        } else {
                            // Extend<&u8> from an iterator that panics at its k-th `next` (C06)
                            let it = RefIter { data: &data, pos: 0, panic_at: st.b, exact: st.c % 2 == 0 };
                            let old = self.model_vec();
                            let b: &mut CircularBuffer<N, u8> = &mut self.buf;
                            let r = window(|| b.extend(it));
                            let _ = crate::alloc::take_op_allocs();
                            match r {
                                Ok(()) => self.model_write(&data),
                                Err(PanicKind::Injected(_)) => {
                                    self.stats.fault_fired[crate::elem::FaultKind::Iter as usize] += 1;
                                    let yielded = (st.b - 1).min(data.len());
                                    let mut all = old.clone();
                                    all.extend_from_slice(&data[..yielded]);
                                    let got: Vec<u8> = self.buf.iter().copied().collect();
                                    let ok = self.buf.len() == got.len()
                                        && got.len() <= N
                                        && (got.is_empty() || all.windows(got.len()).any(|w| w == &got[..]));
                                    if !ok {
                                        self.fail(cls::USER_FAULT, format!("after the iterator given to extend(&u8) panicked at item {}: contents {:?} (len {}) are not a run of the old contents {:?} followed by the {} items yielded", st.b, got, self.buf.len(), old, yielded));
                                    }
                                    self.produced -= (data.len() - yielded) as u64;
                                    self.model = got.into_iter().collect();
                                }
                                Err(PanicKind::Other(m)) => self.fail(own | cls::PANIC_SPEC, format!("extend(&u8) panicked: {m}")),
                            }
                            self.stats.fault_configured[crate::elem::FaultKind::Iter as usize] += 1;
                        }
                    }
                }
            }
            Op::IoWriteVectored => {
                let parts = [self.stamp(st.a), self.stamp(st.b), self.stamp(st.c)];
                let cat: Vec<u8> = parts.iter().flatten().copied().collect();
                let r = self.call(|b| {
                    let ios = [std::io::IoSlice::new(&parts[0]), std::io::IoSlice::new(&parts[1]), std::io::IoSlice::new(&parts[2])];
                    std::io::Write::write_vectored(b, &ios).map_err(|e| e.to_string())
                });
                if let Some(r) = r {
                    match r {
                        Err(e) => self.fail(own, format!("write_vectored returned an error: {e}")),
                        Ok(n) => {
                            let _ = write!(self.trace.line(), " r={n}");
                            if n > cat.len() || (n == 0 && !cat.is_empty()) {
                                self.fail(own, format!("write_vectored of {} bytes reported {}", cat.len(), n));
                            } else {
                                self.model_write(&cat[..n]);
                                // the stream position continues after what was accepted
                                self.produced -= (cat.len() - n) as u64;
                            }
                        }
                    }
                }
            }
            Op::IoFlush => {
                let r = self.t_flush();
                let _ = self.must(r, "flush");
            }
            Op::IoCopyIn => {
                may_alloc = false;
                let data = self.stamp(st.a);
                let mut up = FaultyReader { data, pos: 0, plan: st.vals.clone(), pi: 0, delivered: 0, interrupts: 0, failed: false, streak: 0 };
                let r = self.call(|b| std::io::copy(&mut up, b).map_err(|e| e.kind()));
                if up.interrupts > 0 {
                    self.stats.probe(Probe::IoCopyRetryInterrupted);
                }
                if let Some(r) = r {
                    let delivered: Vec<u8> = up.data[..up.delivered].to_vec();
                    self.produced -= (up.data.len() - up.delivered) as u64;
                    match r {
                        Ok(n) => {
                            let _ = write!(self.trace.line(), " r={n}");
                            if n as usize != up.delivered || up.failed {
                                self.fail(own, format!("io::copy into the buffer reported {n} bytes, upstream delivered {}", up.delivered));
                            }
                        }
                        Err(k) => {
                            let _ = write!(self.trace.line(), " r=err");
                            if !up.failed {
                                self.fail(own, format!("io::copy into the buffer failed ({k:?}) although upstream did not fail: the buffer's write must never fail"));
                            }
                        }
                    }
                    self.model_write(&delivered);
                }
            }
            Op::IoRead | Op::IoTake => {
                let k = st.a;
                argclass = lencls(k, pre_len, N);
                if pre_len == 0 {
                    self.stats.probe(Probe::IoReadEmpty);
                }
                if k < pre_len {
                    self.stats.probe(Probe::IoReadShortDst);
                }
                let mut dst = vec![0xEEu8; k];
                let (got, limit) = if st.op == Op::IoRead {
                    let r = self.t_read(&mut dst);
                    (self.must(r, "read"), k)
                } else {
                    let lim = st.b;
                    let r = self.call(|b| std::io::Read::read(&mut std::io::Read::take(b, lim as u64), &mut dst).map_err(|e| e.to_string()));
                    (
                        match r {
                            Some(Ok(n)) => Some(n),
                            Some(Err(e)) => {
                                self.fail(own, format!("take().read() returned an error: {e}"));
                                None
                            }
                            None => None,
                        },
                        k.min(lim),
                    )
                };
                if let Some(n) = got {
                    let want = limit.min(pre_len);
                    let _ = write!(self.trace.line(), " r={n}");
                    let front: Vec<u8> = self.model.iter().take(want).copied().collect();
                    if n != want {
                        self.fail(own, format!("read into {limit} bytes with {pre_len} buffered returned {n}, expected {want}"));
                    } else if dst[..n] != front[..] {
                        self.fail(own, format!("read delivered {:?}, the front of the buffer is {:?}", &dst[..n], front));
                    } else if dst[n..].iter().any(|b| *b != 0xEE) {
                        self.fail(own, "read wrote beyond the count it reported".into());
                    }
                    for _ in 0..n.min(self.model.len()) {
                        self.model.pop_front();
                    }
                }
            }
            Op::IoReadExact => {
                let k = st.a;
                argclass = lencls(k, pre_len, N);
                let mut dst = vec![0xEEu8; k];
                let old = self.model_vec();
                let res: Option<Result<(), ()>> = if self.transport == 0 {
                    self.call(|b| std::io::Read::read_exact(b, &mut dst).map_err(|_| ()))
                } else {
                    self.eio_read_exact(&mut dst)
                };
                if let Some(r) = res {
                    let _ = write!(self.trace.line(), " r={}", r.is_ok() as u8);
                    if k <= pre_len {
                        if r.is_err() {
                            self.fail(own, format!("read_exact({k}) failed with {pre_len} bytes buffered"));
                        } else if dst[..] != old[..k] {
                            self.fail(own, format!("read_exact delivered {:?}, expected {:?}", dst, &old[..k]));
                        }
                        for _ in 0..k {
                            self.model.pop_front();
                        }
                    } else if r.is_ok() {
                        self.fail(own, format!("read_exact({k}) succeeded with only {pre_len} bytes buffered"));
                    } else {
                        // UnexpectedEof: how much was consumed is unspecified; what remains must
                        // be a suffix of the old contents
                        self.resync_suffix(&old, own, "read_exact (UnexpectedEof)");
                    }
                }
            }
            Op::IoReadToEnd | Op::IoReadToString | Op::IoBytes | Op::IoReadUntil | Op::IoReadLine | Op::IoReadVectored => {
                may_alloc = true; // destination Vec/String of the caller grows inside the call
                self.read_provided(st, own);
            }
            Op::IoFillBuf | Op::IoFillConsume => {
                let r = self.t_fill_buf();
                if let Some(s) = self.must(r, "fill_buf") {
                    let _ = write!(self.trace.line(), " r={}", s.len());
                    let old = self.model_vec();
                    if s.len() > old.len() || s[..] != old[..s.len()] {
                        self.fail(own, format!("fill_buf returned {:?} which is not a prefix of the contents {:?}", s, old));
                    } else if s.is_empty() && !old.is_empty() {
                        self.fail(own, format!("fill_buf returned an empty slice although {} bytes are buffered", old.len()));
                    }
                    if s.len() < old.len() && !s.is_empty() {
                        // contents wrap: a second fill_buf after consuming the first part must
                        // return the rest
                    }
                    if st.op == Op::IoFillConsume && self.fail.is_none() {
                        let k = match st.b % 4 {
                            0 => s.len(),
                            1 => s.len() / 2,
                            2 => s.len() + 1 + st.a % 3,
                            _ => st.a,
                        };
                        self.consume(k, own);
                        if k == s.len() && s.len() < old.len() && self.fail.is_none() {
                            let r = self.t_fill_buf();
                            if let Some(s2) = self.must(r, "fill_buf") {
                                self.stats.probe(Probe::IoFillBufSecondSegment);
                                if s2.is_empty() || s2[..] != old[s.len()..s.len() + s2.len().min(old.len() - s.len())] {
                                    self.fail(own, format!("second fill_buf returned {:?}, the rest of the contents is {:?}", s2, &old[s.len()..]));
                                }
                            }
                        }
                    }
                }
            }
            Op::IoConsume => {
                argclass = lencls(st.a, pre_len, N);
                self.consume(st.a, own);
            }
            Op::IoCopyOut => {
                let old = self.model_vec();
                let mut down = FaultyWriter { received: Vec::new(), plan: st.vals.clone(), pi: 0, shorts: 0, interrupts: 0, streak: 0 };
                let r = self.call(|b| std::io::copy(b, &mut down).map_err(|e| e.kind()));
                if down.shorts > 0 {
                    self.stats.probe(Probe::IoShortWrite);
                }
                if down.interrupts > 0 {
                    self.stats.probe(Probe::IoCopyRetryInterrupted);
                }
                if let Some(r) = r {
                    let rec = &down.received;
                    if rec.len() > old.len() || rec[..] != old[..rec.len()] {
                        self.fail(own, format!("downstream received {:?} which is not a prefix of the contents {:?}", rec, old));
                    }
                    match r {
                        Ok(n) => {
                            let _ = write!(self.trace.line(), " r={n}");
                            if n as usize != old.len() || rec.len() != old.len() {
                                self.fail(own, format!("io::copy out of the buffer reported {n} bytes of {}", old.len()));
                            }
                            self.model.clear();
                        }
                        Err(_) => {
                            let _ = write!(self.trace.line(), " r=err");
                            self.resync_suffix(&old, own, "io::copy (downstream failed)");
                            if rec.len() + self.model.len() > old.len() {
                                self.fail(own, "after a failed io::copy, delivered + remaining bytes exceed the old contents".into());
                            }
                        }
                    }
                }
            }
            Op::IoStall => {}
            // ---- generic deque operations on a byte buffer (1-byte elements without hooks):
            // element-size-specific code paths of the crate are reached here
            Op::PushBack | Op::PushFront | Op::TryPushBack | Op::TryPushFront => {
                let v = self.stamp(1)[0];
                let full = pre_len == N;
                let op = st.op;
                let r = self.call(|b| match op {
                    Op::PushBack => b.push_back(v).map(Err).unwrap_or(Ok(())),
                    Op::PushFront => b.push_front(v).map(Err).unwrap_or(Ok(())),
                    Op::TryPushBack => b.try_push_back(v),
                    _ => b.try_push_front(v),
                });
                if let Some(r) = r {
                    let back = matches!(op, Op::PushBack | Op::TryPushBack);
                    let want: Result<(), u8> = if !full {
                        if back {
                            self.model.push_back(v)
                        } else {
                            self.model.push_front(v)
                        }
                        Ok(())
                    } else if matches!(op, Op::TryPushBack | Op::TryPushFront) || N == 0 {
                        Err(v)
                    } else if back {
                        let e = self.model.pop_front().unwrap();
                        self.model.push_back(v);
                        Err(e)
                    } else {
                        let e = self.model.pop_back().unwrap();
                        self.model.push_front(v);
                        Err(e)
                    };
                    if r != want {
                        self.fail(cls::RET | cls::IDENT, format!("{}({v}) on a byte buffer returned {:?}, expected {:?}", op.name(), r, want));
                    }
                }
                generic = true;
            }
            Op::PopBack | Op::PopFront | Op::Remove | Op::SwapRemoveBack | Op::SwapRemoveFront => {
                let op = st.op;
                let a = st.a;
                let r = self.call(|b| match op {
                    Op::PopBack => b.pop_back(),
                    Op::PopFront => b.pop_front(),
                    Op::Remove => b.remove(a),
                    Op::SwapRemoveBack => b.swap_remove_back(a),
                    _ => b.swap_remove_front(a),
                });
                if let Some(r) = r {
                    let want = match op {
                        Op::PopBack => self.model.pop_back(),
                        Op::PopFront => self.model.pop_front(),
                        Op::Remove => self.model.remove(a),
                        Op::SwapRemoveBack => self.model.swap_remove_back(a),
                        _ => self.model.swap_remove_front(a),
                    };
                    if r != want {
                        self.fail(cls::RET, format!("{}({a}) on a byte buffer returned {:?}, expected {:?}", op.name(), r, want));
                    }
                }
                generic = true;
            }
            Op::Swap => {
                let (a, c) = (st.a, st.b);
                let expect_panic = a >= pre_len || c >= pre_len;
                let b: &mut CircularBuffer<N, u8> = &mut self.buf;
                let r = window(|| b.swap(a, c));
                match (r.is_ok(), expect_panic) {
                    (true, false) => self.model.swap(a, c),
                    (false, true) => {}
                    (true, true) => self.fail(cls::PANIC_SPEC | cls::RET, "swap with an out-of-bounds index returned normally".into()),
                    (false, false) => self.fail(cls::PANIC_SPEC | cls::RET, "swap with valid indexes panicked".into()),
                }
                generic = true;
            }
            Op::TruncateBack | Op::TruncateFront | Op::Clear | Op::MakeContiguous => {
                let op = st.op;
                let a = st.a;
                let r = self.call(|b| match op {
                    Op::TruncateBack => b.truncate_back(a),
                    Op::TruncateFront => b.truncate_front(a),
                    Op::Clear => b.clear(),
                    _ => {
                        let l = b.make_contiguous().len();
                        assert!(l == b.len() && b.as_slices().1.is_empty(), "make_contiguous postcondition");
                    }
                });
                if r.is_some() {
                    match op {
                        Op::TruncateBack => self.model.truncate(a),
                        Op::TruncateFront => {
                            if a < pre_len {
                                self.model.drain(..pre_len - a);
                            }
                        }
                        Op::Clear => self.model.clear(),
                        _ => {}
                    }
                }
                generic = true;
            }
            Op::Drain => {
                let res = st.rs.resolve(pre_len);
                let word = st.word.clone();
                let rs = st.rs;
                let forget = st.c % 2 == 1;
                let b: &mut CircularBuffer<N, u8> = &mut self.buf;
                let r = window(|| {
                    let mut d = std::mem::ManuallyDrop::new(crate::with_range!(rs, |r| b.drain(r)));
                    let mut out: Vec<(u8, u8)> = Vec::new();
                    for w in word.iter() {
                        match *w {
                            b'n' => {
                                if let Some(x) = d.next() {
                                    out.push((b'n', x));
                                }
                            }
                            b'b' => {
                                if let Some(x) = d.next_back() {
                                    out.push((b'b', x));
                                }
                            }
                            _ => {}
                        }
                    }
                    let l = d.len();
                    if !forget {
                        drop(std::mem::ManuallyDrop::into_inner(d));
                    }
                    (out, l)
                });
                let _ = crate::alloc::take_op_allocs();
                match (r, res) {
                    (Ok((out, l)), Ok((a, c))) => {
                        let sel: Vec<u8> = self.model.iter().skip(a).take(c - a).copied().collect();
                        let (mut lo, mut hi) = (0usize, sel.len());
                        let mut ok = true;
                        for (w, x) in out {
                            if lo >= hi {
                                ok = false;
                                break;
                            }
                            let want = if w == b'n' {
                                lo += 1;
                                sel[lo - 1]
                            } else {
                                hi -= 1;
                                sel[hi]
                            };
                            if want != x {
                                ok = false;
                            }
                        }
                        if !ok || l != hi - lo {
                            self.fail(cls::DRAIN | cls::RET, format!("drain of a byte buffer yielded the wrong bytes or len (range {a}..{c})"));
                        }
                        if forget {
                            // leaked drain (C10) of elements without drop glue: what the buffer still
                            // holds must come from the old contents, in order, and must not include
                            // the bytes handed out (identity = value while stamps are distinct)
                            self.stats.forgets += 1;
                            self.forgot = true;
                            let (start, size) = self.buf.verif_layout();
                            if size > N || (N > 0 && start >= N) {
                                self.fail(cls::FORGET, format!("after leaking a drain the byte buffer is corrupt: front position {start}, length {size}, capacity {N}"));
                            }
                            let got: Vec<u8> = if self.fail.is_some() { Vec::new() } else { self.buf.iter().copied().collect() };
                            let old: Vec<u8> = self.model.iter().copied().collect();
                            let handed: Vec<u8> = sel[..lo].iter().chain(sel[hi..].iter()).copied().collect();
                            let mut it = old.iter();
                            let subseq = got.iter().all(|g| it.any(|o| o == g));
                            let dup = distinct && got.iter().any(|g| handed.contains(g));
                            if self.buf.len() != got.len() || !subseq || dup {
                                self.fail(cls::FORGET, format!("after leaking a drain of a byte buffer ({} bytes handed out: {:?}) the buffer holds {:?}; previous contents {:?}", handed.len(), handed, got, old));
                            }
                            self.model = got.into_iter().collect();
                        } else {
                            self.model.drain(a..c);
                        }
                    }
                    (Err(_), Err(())) => {}
                    (Ok(_), Err(())) => self.fail(cls::PANIC_SPEC | cls::DRAIN, "drain with an invalid range returned normally".into()),
                    (Err(_), Ok(_)) => self.fail(cls::PANIC_SPEC | cls::DRAIN, "drain with a valid range panicked".into()),
                }
                generic = true;
                may_alloc = true;
            }
            Op::FillWith => {
                // fill_with on elements without drop glue; the closure may panic at its k-th call
                let k = st.b;
                let base = self.produced;
                let mut calls = 0usize;
                let b: &mut CircularBuffer<N, u8> = &mut self.buf;
                let r = window(|| {
                    b.fill_with(|| {
                        calls += 1;
                        if calls == k {
                            std::panic::resume_unwind(Box::new(crate::elem::Injected(crate::elem::FaultKind::Closure)));
                        }
                        ((base + calls as u64 - 1) % 251) as u8
                    })
                });
                let _ = crate::alloc::take_op_allocs();
                let made: Vec<u8> = (0..calls.saturating_sub(if r.is_err() { 1 } else { 0 }) as u64).map(|i| ((base + i) % 251) as u8).collect();
                self.produced += made.len() as u64;
                match r {
                    Ok(()) => {
                        self.model.clear();
                        let tail = if made.len() > N { made[made.len() - N..].to_vec() } else { made.clone() };
                        self.model_write(&tail);
                    }
                    Err(PanicKind::Injected(_)) => {
                        self.stats.fault_fired[crate::elem::FaultKind::Closure as usize] += 1;
                        // C06: a valid sequence with a consistent length: only values the closure
                        // produced in this call, in order
                        let got: Vec<u8> = self.buf.iter().copied().collect();
                        let mut it = made.iter();
                        let ok = self.buf.len() == got.len() && got.len() <= N && got.iter().all(|g| it.any(|m| m == g));
                        if !ok {
                            self.fail(cls::USER_FAULT, format!("after the closure of fill_with panicked at call {k}: buffer holds {:?} (len {}), the closure produced {:?}", got, self.buf.len(), made));
                        }
                        self.model = got.into_iter().collect();
                    }
                    Err(PanicKind::Other(m)) => self.fail(cls::RET | cls::PANIC_SPEC, format!("fill_with panicked: {m}")),
                }
                if k > 0 {
                    self.stats.fault_configured[crate::elem::FaultKind::Closure as usize] += 1;
                }
                generic = true;
            }
            Op::ExtendFromSlice | Op::Fill => {
                let op = st.op;
                let data = if op == Op::Fill { self.stamp(1) } else { self.stamp(st.a) };
                let r = self.call(|b| {
                    if op == Op::Fill {
                        b.fill(data[0])
                    } else {
                        b.extend_from_slice(&data)
                    }
                });
                if r.is_some() {
                    if op == Op::Fill {
                        self.model.clear();
                        let v = vec![data[0]; N];
                        self.model_write(&v);
                    } else {
                        self.model_write(&data);
                    }
                }
                generic = true;
            }
            _ => self.fail(cls::HARNESS, format!("op {} is not part of the io scenario", st.op.name())),
        }

        // ---- post-step: contents vs byte model, through every read-only view
        if self.fail.is_none() {
            let want = self.model_vec();
            let got: Vec<u8> = self.buf.iter().copied().collect();
            let (s0, s1) = self.buf.as_slices();
            let cat: Vec<u8> = s0.iter().chain(s1.iter()).copied().collect();
            if got != want || cat != want || self.buf.len() != want.len() {
                let own = if generic { cls::RET } else { own };
                self.fail(own | cls::CONTENTS, format!("after {}: contents {:?} (len {}) != byte model {:?}", st.op.name(), got, self.buf.len(), want));
            }
        }
        // ---- relocation (C20) for the generic operations on bytes
        if self.fail.is_none() && generic && distinct && !self.panicked {
            let bound: Option<usize> = match st.op {
                Op::PushBack | Op::PushFront | Op::TryPushBack | Op::TryPushFront | Op::PopBack | Op::PopFront | Op::Swap | Op::SwapRemoveBack | Op::SwapRemoveFront
                | Op::TruncateBack | Op::TruncateFront | Op::Clear => Some(2),
                Op::Remove => Some(pre_len.saturating_sub(st.a)),
                Op::Drain => st.rs.resolve(pre_len).ok().map(|(_, j)| pre_len - j),
                _ => None,
            };
            if let Some(bound) = bound {
                let post: Vec<(u8, usize)> = self.buf.iter().map(|b| (*b, b as *const u8 as usize)).collect();
                let post_distinct = {
                    let mut seen = [false; 256];
                    post.iter().all(|(v, _)| !std::mem::replace(&mut seen[*v as usize], true))
                };
                if post_distinct {
                    let moved = pre_addr.iter().filter(|(v, a)| post.iter().any(|(pv, pa)| pv == v && pa != a)).count();
                    if moved > bound {
                        self.fail(cls::RELOC, format!("{} on a byte buffer relocated {} surviving elements (bound {}), layout before: start={} size={} N={}", st.op.name(), moved, bound, pre_layout.0, pre_layout.1, N));
                    }
                }
            }
        }
        // ---- Eq / Ord / Hash / Debug depend only on the contents (C13, C04): compare with a
        // freshly built buffer of the same capacity holding the same bytes (front at slot 0)
        if self.fail.is_none() {
            use std::hash::{Hash, Hasher};
            let want = self.model_vec();
            let canon: Box<CircularBuffer<N, u8>> = Box::new(want.iter().copied().collect());
            let with_debug = i % 4 == 0;
            let b: &CircularBuffer<N, u8> = &self.buf;
            let c: &CircularBuffer<N, u8> = &canon;
            let r = window(|| {
                let mut h1 = crate::elem::RecHasher::new();
                let mut h2 = crate::elem::RecHasher::new();
                b.hash(&mut h1);
                c.hash(&mut h2);
                let dbg = if with_debug {
                    let mut w1 = crate::deque_sess::HookWriter(String::new());
                    let mut w2 = crate::deque_sess::HookWriter(String::new());
                    let _ = write!(w1, "{:?}", b);
                    let _ = write!(w2, "{:?}", &want[..]);
                    w1.0 == w2.0
                } else {
                    true
                };
                // one-byte element types whose order is not the unsigned byte order (i8): two
                // contiguous buffers that differ in the sign of one element
                let i8ok = if with_debug && !want.is_empty() {
                    let sa: Vec<i8> = want.iter().map(|x| *x as i8).collect();
                    let mut sb = sa.clone();
                    let p = i % sb.len();
                    sb[p] = sb[p].wrapping_neg().wrapping_sub(1);
                    let ca: Box<CircularBuffer<N, i8>> = Box::new(sa.iter().copied().collect());
                    let cb: Box<CircularBuffer<N, i8>> = Box::new(sb.iter().copied().collect());
                    ca.cmp(&cb) == sa.cmp(&sb) && ca.partial_cmp(&cb) == sa.partial_cmp(&sb) && (*ca == *cb) == (sa == sb)
                } else {
                    true
                };
                (*b == *c, *c == *b, *b == want[..], b.cmp(c), h1.finish() == h2.finish(), dbg && i8ok)
            });
            let _ = crate::alloc::take_op_allocs();
            // ---- C17 for the comparison / hashing impls on one-byte elements: a window of its
            // own in which the harness allocates nothing (no Vec, no format!, no Box), so every
            // allocation counted in it was made by the crate
            let r2 = window(|| {
                let mut h = crate::elem::RecHasher::new();
                b.hash(&mut h);
                let e = *b == *c;
                let s = *b == want[..];
                let o = b.cmp(c);
                let p = b.partial_cmp(c);
                (h.finish(), e, s, o, p)
            });
            let cmp_allocs = crate::alloc::take_op_allocs();
            // "for any capacity": once per run, the same trait impls plus clone / clone_from on a
            // wrapped buffer larger than a page (size thresholds; the buffer itself is built
            // outside the window, its layout derived from the model so that it is a function of
            // the schedule only)
            if i == 0 && r2.is_ok() && cmp_allocs == 0 {
                const BIG: usize = 8192;
                let mut big = CircularBuffer::<BIG, u8>::boxed();
                let fill = BIG - 1 - (want.len() * 37) % 61;
                let shift = 1 + (want.len() * 101 + N * 7) % (BIG / 2);
                for _ in 0..shift {
                    big.push_back(0);
                    big.pop_front();
                }
                for k in 0..fill {
                    big.push_back((k % 251) as u8);
                }
                let mut dst = CircularBuffer::<BIG, u8>::boxed();
                dst.push_back(1);
                let bigr: &CircularBuffer<BIG, u8> = &big;
                let dstr: &mut CircularBuffer<BIG, u8> = &mut dst;
                let _ = crate::alloc::take_op_allocs();
                let r3 = window(|| {
                    let cl = bigr.clone();
                    let same = cl == *bigr;
                    dstr.clone_from(bigr);
                    let mut h = crate::elem::RecHasher::new();
                    bigr.hash(&mut h);
                    same && *dstr == *bigr && (&*dstr).cmp(bigr) == std::cmp::Ordering::Equal && cl.len() == fill
                });
                let big_allocs = crate::alloc::take_op_allocs();
                match r3 {
                    Ok(true) => {
                        if big_allocs > 0 {
                            self.fail(cls::ALLOC, format!("clone / clone_from / hash / == / cmp of an {BIG}-byte buffer (wrapped, len {fill}) performed {big_allocs} heap allocation(s) of its own"));
                        }
                    }
                    Ok(false) => self.fail(cls::CMP | cls::CTOR, format!("clone / clone_from of an {BIG}-byte wrapped buffer (len {fill}, front at {shift}) is not equal to its source")),
                    Err(_) => self.fail(cls::CMP | cls::PANIC_SPEC, format!("clone / comparison of an {BIG}-byte buffer panicked")),
                }
            }
            if r2.is_ok() && cmp_allocs > 0 {
                self.fail(cls::ALLOC, format!("hash / == / cmp of a byte buffer (start={} size={} N={}) performed {} heap allocation(s) of its own", self.buf.verif_layout().0, self.buf.len(), N, cmp_allocs));
            }
            match r {
                Ok((e1, e2, e3, ord, h, d)) => {
                    if !(e1 && e2 && e3 && ord == std::cmp::Ordering::Equal && h && d) {
                        self.fail(
                            cls::CMP | cls::GARBAGE,
                            format!("buffer {:?} vs a freshly built buffer with the same bytes: a==b {e1}, b==a {e2}, ==slice {e3}, cmp {ord:?}, same hash call sequence {h}, same Debug {d}", want),
                        );
                    }
                }
                Err(_) => self.fail(cls::CMP | cls::PANIC_SPEC, "comparison / hashing of the byte buffer panicked".into()),
            }
        }
        if self.fail.is_none() && !may_alloc && self.allocs > 0 && !self.panicked {
            self.fail(cls::ALLOC, format!("{} performed {} heap allocation(s) of its own", st.op.name(), self.allocs));
        }
        {
            let line = self.trace.line();
            let _ = write!(line, " c=[");
            for b in self.model.iter() {
                let _ = write!(line, "{b},");
            }
            line.push(']');
            self.trace.commit();
        }
        if pre_len > 0 || !self.model.is_empty() {
            self.stats.cell([N as u64 + 1000, pre_layout.0 as u64, pre_layout.1 as u64, st.op as u64, argclass, self.transport as u64]);
        }
        if self.fail.is_none() {
            self.poison();
        }
    }

    fn consume(&mut self, k: usize, own: u32) {
        let len = self.model.len();
        if k > len {
            self.stats.probe(Probe::IoConsumeOverLen);
        }
        if self.t_consume(k).is_some() {
            for _ in 0..k.min(len) {
                self.model.pop_front();
            }
        }
        let _ = own;
    }

    /// After an operation whose std contract leaves the consumed amount open: the remaining
    /// contents must be a suffix of `old`; the model is resynchronised to it.
    fn resync_suffix(&mut self, old: &[u8], own: u32, what: &str) {
        let got: Vec<u8> = self.buf.iter().copied().collect();
        if got.len() > old.len() || got[..] != old[old.len() - got.len()..] {
            self.fail(own, format!("after {what}: contents {:?} are not a suffix of the previous contents {:?}", got, old));
        }
        self.model = got.into_iter().collect();
    }

    fn read_provided(&mut self, st: &Step, own: u32) {
        let old = self.model_vec();
        match st.op {
            Op::IoReadToEnd => {
                let mut v: Vec<u8> = vec![7, 7];
                let r = self.call(|b| std::io::Read::read_to_end(b, &mut v).map_err(|e| e.to_string()));
                if let Some(r) = r {
                    match r {
                        Ok(n) => {
                            if n != old.len() || v[2..] != old[..] {
                                self.fail(own, format!("read_to_end returned {n} / {:?}, contents were {:?}", &v[2..], old));
                            }
                            self.model.clear();
                        }
                        Err(e) => self.fail(own, format!("read_to_end returned an error: {e}")),
                    }
                }
            }
            Op::IoReadToString => {
                let mut s = String::from("ab");
                let r = self.call(|b| std::io::Read::read_to_string(b, &mut s).map_err(|e| e.kind()));
                if let Some(r) = r {
                    let valid = std::str::from_utf8(&old).is_ok();
                    match r {
                        Ok(n) => {
                            if !valid || n != old.len() || s.as_bytes()[2..] != old[..] {
                                self.fail(own, format!("read_to_string returned Ok({n}) for contents {:?}", old));
                            }
                            self.model.clear();
                        }
                        Err(k) => {
                            if valid {
                                self.fail(own, format!("read_to_string failed ({k:?}) on valid UTF-8 contents {:?}", old));
                            } else {
                                self.resync_suffix(&old, own, "read_to_string (invalid UTF-8)");
                            }
                        }
                    }
                }
            }
            Op::IoBytes => {
                let k = st.a;
                let r = self.call(|b| {
                    let mut out = Vec::new();
                    for x in std::io::Read::bytes(&mut *b).take(k) {
                        match x {
                            Ok(v) => out.push(v),
                            Err(e) => return Err(e.to_string()),
                        }
                    }
                    Ok(out)
                });
                if let Some(r) = r {
                    match r {
                        Ok(v) => {
                            let want = k.min(old.len());
                            if v[..] != old[..want] {
                                self.fail(own, format!("bytes().take({k}) yielded {:?}, expected {:?}", v, &old[..want]));
                            }
                            for _ in 0..want {
                                self.model.pop_front();
                            }
                        }
                        Err(e) => self.fail(own, format!("bytes() yielded an error: {e}")),
                    }
                }
            }
            Op::IoReadUntil => {
                let delim = (st.a % 251) as u8;
                let mut v: Vec<u8> = Vec::new();
                let r = self.call(|b| std::io::BufRead::read_until(b, delim, &mut v).map_err(|e| e.to_string()));
                if let Some(r) = r {
                    let want = match old.iter().position(|x| *x == delim) {
                        Some(p) => p + 1,
                        None => old.len(),
                    };
                    match r {
                        Ok(n) => {
                            if n != want || v[..] != old[..want] {
                                self.fail(own, format!("read_until({delim}) returned {n} / {:?}, expected {:?}", v, &old[..want]));
                            }
                            for _ in 0..want {
                                self.model.pop_front();
                            }
                        }
                        Err(e) => self.fail(own, format!("read_until returned an error: {e}")),
                    }
                }
            }
            Op::IoReadLine => {
                let mut s = String::new();
                let r = self.call(|b| std::io::BufRead::read_line(b, &mut s).map_err(|e| e.kind()));
                if let Some(r) = r {
                    let want = match old.iter().position(|x| *x == b'\n') {
                        Some(p) => p + 1,
                        None => old.len(),
                    };
                    let valid = std::str::from_utf8(&old[..want]).is_ok();
                    match r {
                        Ok(n) => {
                            if !valid || n != want || s.as_bytes() != &old[..want] {
                                self.fail(own, format!("read_line returned Ok({n}) {:?} for contents {:?}", s, old));
                            }
                            for _ in 0..want {
                                self.model.pop_front();
                            }
                        }
                        Err(k) => {
                            if valid {
                                self.fail(own, format!("read_line failed ({k:?}) on valid UTF-8 {:?}", &old[..want]));
                            } else {
                                self.resync_suffix(&old, own, "read_line (invalid UTF-8)");
                            }
                        }
                    }
                }
            }
            _ => {
                // read_vectored
                let (k1, k2) = (st.a, st.b);
                let mut d1 = vec![0u8; k1];
                let mut d2 = vec![0u8; k2];
                let r = self.call(|b| {
                    let mut ios = [std::io::IoSliceMut::new(&mut d1), std::io::IoSliceMut::new(&mut d2)];
                    std::io::Read::read_vectored(b, &mut ios).map_err(|e| e.to_string())
                });
                if let Some(r) = r {
                    match r {
                        Ok(n) => {
                            let cat: Vec<u8> = d1.iter().chain(d2.iter()).copied().collect();
                            if n > old.len() || n > cat.len() || cat[..n] != old[..n] || (n == 0 && !old.is_empty() && !cat.is_empty()) {
                                self.fail(own, format!("read_vectored returned {n} / {:?}, contents were {:?}", &cat[..n.min(cat.len())], old));
                            }
                            for _ in 0..n.min(self.model.len()) {
                                self.model.pop_front();
                            }
                        }
                        Err(e) => self.fail(own, format!("read_vectored returned an error: {e}")),
                    }
                }
            }
        }
    }

    fn eio_write_all(&mut self, data: &[u8]) {
        let _ = data;
        match self.transport {
            #[cfg(feature = "eio")]
            1 => {
                let r = self.call(|b| embedded_io::Write::write_all(b, data).is_ok());
                if let Some(ok) = r {
                    if !ok {
                        self.fail(cls::EIO, "embedded_io write_all failed".into());
                    }
                    self.model_write(data);
                }
            }
            #[cfg(feature = "eioa")]
            2 => {
                let r = self.call(|b| exec1::poll_once(embedded_io_async::Write::write_all(b, data)).map(|r| r.is_ok()));
                if let Some(r) = r {
                    match r {
                        Some(true) => {}
                        Some(false) => self.fail(cls::EIO, "embedded_io_async write_all failed".into()),
                        None => self.fail(cls::EIO, "embedded_io_async write_all returned Poll::Pending".into()),
                    }
                    self.model_write(data);
                }
            }
            _ => {}
        }
    }

    fn eio_read_exact(&mut self, dst: &mut [u8]) -> Option<Result<(), ()>> {
        let _ = &dst;
        match self.transport {
            #[cfg(feature = "eio")]
            1 => self.call(|b| embedded_io::Read::read_exact(b, dst).map_err(|_| ())),
            #[cfg(feature = "eioa")]
            2 => {
                let r = self.call(|b| exec1::poll_once(embedded_io_async::Read::read_exact(b, dst)).map(|r| r.map_err(|_| ())));
                match r {
                    Some(Some(x)) => Some(x),
                    Some(None) => {
                        self.fail(cls::EIO, "embedded_io_async read_exact returned Poll::Pending".into());
                        None
                    }
                    None => None,
                }
            }
            _ => None,
        }
    }

    /// Seam S3 for bytes: every byte value is a legal element, so the only detector is the
    /// two-run comparison of trace digests.
    fn poison(&mut self) {
        if self.garbage == Garbage::None || N == 0 {
            return;
        }
        let (start, size, ptr) = self.buf.verif_raw_parts();
        if size >= N {
            return;
        }
        for slot in 0..N {
            let rel = (slot + N - start) % N;
            if rel < size {
                continue;
            }
            let b: u8 = match self.garbage {
                Garbage::Zero => 0,
                Garbage::Ones => 0xFF,
                Garbage::X5A => 0x5A,
                _ => self.grng.next_u64() as u8,
            };
            // SAFETY: slot < N and outside the occupied range.
            unsafe { std::ptr::write(ptr.add(slot) as *mut u8, b) };
            self.stats.poisons += 1;
        }
        self.stats.probe(Probe::PoisonApplied);
    }
}

/// Harness-owned by-reference iterator (seam S2) with an exact or absent size hint; panics at
/// its `panic_at`-th call of `next`.
struct RefIter<'a> {
    data: &'a [u8],
    pos: usize,
    panic_at: usize,
    exact: bool,
}
impl<'a> Iterator for RefIter<'a> {
    type Item = &'a u8;
    fn next(&mut self) -> Option<&'a u8> {
        if self.pos + 1 == self.panic_at {
            std::panic::resume_unwind(Box::new(crate::elem::Injected(crate::elem::FaultKind::Iter)));
        }
        let r = self.data.get(self.pos);
        self.pos += 1;
        r
    }
    fn size_hint(&self) -> (usize, Option<usize>) {
        let rem = self.data.len().saturating_sub(self.pos);
        if self.exact {
            (rem, Some(rem))
        } else {
            (0, None)
        }
    }
}

fn lencls(k: usize, reference: usize, n: usize) -> u64 {
    if k == 0 {
        0
    } else if k < reference {
        1
    } else if k == reference {
        2
    } else if k <= n {
        3
    } else {
        4
    }
}

// ------------------------------------------------------------------ generation
const PRODUCER: &[Op] = &[Op::IoWrite, Op::IoWriteAll, Op::IoWriteVectored, Op::IoWriteFmt, Op::IoFlush, Op::IoCopyIn, Op::IoExtendRef];
const CONSUMER: &[Op] = &[
    Op::IoRead, Op::IoReadExact, Op::IoReadToEnd, Op::IoReadToString, Op::IoReadVectored, Op::IoBytes, Op::IoFillBuf, Op::IoConsume, Op::IoFillConsume, Op::IoReadUntil,
    Op::IoReadLine, Op::IoTake, Op::IoCopyOut,
];
const GENERIC_P: &[Op] = &[Op::PushBack, Op::PushFront, Op::TryPushBack, Op::TryPushFront, Op::ExtendFromSlice, Op::Fill, Op::FillWith, Op::IoWrite, Op::IoExtendRef];
const GENERIC_C: &[Op] = &[
    Op::PopBack, Op::PopFront, Op::Remove, Op::SwapRemoveBack, Op::SwapRemoveFront, Op::Swap, Op::TruncateBack, Op::TruncateFront, Op::Clear, Op::MakeContiguous, Op::Drain,
    Op::IoRead, Op::IoConsume,
];
const ALL_P: &[Op] = &[
    Op::IoWrite, Op::IoWriteAll, Op::IoWriteVectored, Op::IoWriteFmt, Op::IoFlush, Op::IoCopyIn, Op::IoExtendRef, Op::IoWrite, Op::IoWriteAll, Op::IoCopyIn, Op::PushBack, Op::PushFront,
    Op::TryPushFront, Op::ExtendFromSlice, Op::Fill, Op::FillWith,
];
const ALL_C: &[Op] = &[
    Op::IoRead, Op::IoReadExact, Op::IoReadToEnd, Op::IoReadToString, Op::IoReadVectored, Op::IoBytes, Op::IoFillBuf, Op::IoConsume, Op::IoFillConsume, Op::IoReadUntil,
    Op::IoReadLine, Op::IoTake, Op::IoCopyOut, Op::IoRead, Op::IoFillConsume, Op::IoConsume, Op::PopBack, Op::PopFront, Op::Remove, Op::Swap, Op::TruncateBack, Op::TruncateFront,
    Op::MakeContiguous, Op::Drain, Op::Clear,
];
const COMMON_P: &[Op] = &[Op::IoWrite, Op::IoWriteAll, Op::IoFlush];
const COMMON_C: &[Op] = &[Op::IoRead, Op::IoReadExact, Op::IoFillBuf, Op::IoConsume, Op::IoFillConsume];

pub fn io_layouts() -> Vec<(usize, usize, usize)> {
    let mut v = Vec::new();
    for &n in IO_NS.iter() {
        let rots: Vec<usize> = if n <= 8 { (0..n.max(1)).collect() } else { vec![0, 1, n / 2, n - 2, n - 1] };
        let lens: Vec<usize> = if n <= 8 { (0..=n).collect() } else { vec![0, 1, 2, n / 2, n - 1, n] };
        for r in &rots {
            for s in &lens {
                v.push((n, *r, *s));
            }
        }
    }
    v
}

fn io_len(rng: &mut Rng, reference: usize, n: usize) -> usize {
    let c = [0, 1, reference.wrapping_sub(1), reference, reference + 1, n.wrapping_sub(1), n, n + 1, n + 2, 2 * n + 1];
    let k = if rng.below(10) < 6 { *rng.pick(&c) } else { rng.below(2 * n as u64 + 2) as usize };
    if k > 2 * n + 1 {
        0
    } else {
        k
    }
}

fn io_idx(rng: &mut Rng, len: usize, n: usize) -> usize {
    if rng.below(4) == 0 {
        *rng.pick(&[0, 1, len.wrapping_sub(1), len, len + 1, n, usize::MAX])
    } else {
        rng.below(len as u64 + 1) as usize
    }
}

fn peer_plan(rng: &mut Rng) -> Vec<u32> {
    let l = rng.below(6) as usize;
    (0..l)
        .map(|_| {
            let kind = rng.weighted(&[2, 2, 2, 2, 2, 3, 1, 6]) as u32;
            kind + 8 * rng.below(32) as u32
        })
        .collect()
}

pub fn gen_io(seed: u64, prop: &str, run: u64) -> Script {
    let common_only = prop == "C16";
    let pid = prop.bytes().fold(0u64, |a, b| a * 131 + b as u64);
    let mut rng = Rng::new(mix(&[seed, 2, pid, run]));
    let lays = io_layouts();
    let generic = matches!(prop, "C01io" | "C02io" | "C09io" | "C10io" | "C11io" | "C20io");
    let (prod, cons): (&[Op], &[Op]) = if common_only {
        (COMMON_P, COMMON_C)
    } else if generic {
        (GENERIC_P, GENERIC_C)
    } else {
        (ALL_P, ALL_C)
    };
    let focus_all: Vec<Op> = if common_only || generic { prod.iter().chain(cons.iter()).copied().collect() } else { PRODUCER.iter().chain(CONSUMER.iter()).copied().collect() };
    let stratum = run % (lays.len() as u64 * focus_all.len() as u64);
    let (n, r, s) = lays[(stratum % lays.len() as u64) as usize];
    let focus = focus_all[(stratum / lays.len() as u64) as usize];
    let mut steps = Vec::new();
    let mut len = 0usize;
    // layout prelude: rotate by r, then fill to s
    if n > 0 {
        if r > 0 {
            steps.push(Step::new(Op::IoLayout).a(r).b(r));
        }
        if s > 0 {
            steps.push(Step::new(Op::IoWrite).a(s));
            len = s;
        }
    }
    let tail = *rng.pick(&[0usize, 0, 1, 2, 3, 4, 6, 8, 12, 20, 30]);
    // scheduler: who runs next; stalls make one side run several times in a row
    let mut side = rng.below(2);
    let mut stall = 0u32;
    for t in 0..=tail {
        let op = if t == 0 {
            focus
        } else {
            if stall == 0 {
                side = rng.below(2);
                stall = if rng.below(4) == 0 { 1 + rng.below(5) as u32 } else { 0 };
            } else {
                stall -= 1;
            }
            if side == 0 {
                *rng.pick(prod)
            } else {
                *rng.pick(cons)
            }
        };
        let mut st = Step::new(op);
        let free = n - len.min(n);
        match op {
            Op::IoWrite | Op::IoWriteAll | Op::IoWriteFmt | Op::IoExtendRef => {
                st.a = io_len(&mut rng, free, n);
                if op == Op::IoExtendRef && rng.below(3) == 0 {
                    // the by-reference iterator panics at its k-th `next` (seam S2)
                    st.b = 1 + rng.below(st.a as u64 + 1) as usize;
                    st.c = rng.below(2) as usize;
                }
                len = (len + st.a).min(n);
            }
            Op::IoWriteVectored => {
                st.a = io_len(&mut rng, free, n) / 2;
                st.b = rng.below(n as u64 + 2) as usize;
                st.c = rng.below(3) as usize;
                len = n.min(len + st.a + st.b + st.c);
            }
            Op::IoCopyIn => {
                st.a = if rng.below(4) == 0 { 8192 + rng.below(9000) as usize } else { io_len(&mut rng, free, n) * (1 + rng.below(3) as usize) };
                st.vals = peer_plan(&mut rng);
                len = (len + st.a).min(n);
            }
            Op::IoRead | Op::IoReadExact | Op::IoBytes | Op::IoConsume => {
                st.a = io_len(&mut rng, len, n);
                if op == Op::IoConsume && rng.below(8) == 0 {
                    st.a = *rng.pick(&[usize::MAX, usize::MAX - 1, usize::MAX / 2 + 1]);
                }
                len = len.saturating_sub(st.a);
            }
            Op::IoTake => {
                st.a = io_len(&mut rng, len, n);
                st.b = io_len(&mut rng, len, n);
                len = len.saturating_sub(st.a.min(st.b));
            }
            Op::IoReadVectored => {
                st.a = io_len(&mut rng, len, n) / 2;
                st.b = rng.below(n as u64 + 2) as usize;
                len = len.saturating_sub(st.a + st.b);
            }
            Op::IoReadToEnd | Op::IoReadToString | Op::IoCopyOut => {
                if op == Op::IoCopyOut {
                    st.vals = peer_plan(&mut rng);
                }
                len = 0;
            }
            Op::IoFillConsume => {
                st.a = rng.below(n as u64 + 3) as usize;
                st.b = rng.below(4) as usize;
                len /= 2;
            }
            Op::IoReadUntil => {
                st.a = rng.below(251) as usize;
                len /= 2;
            }
            Op::IoReadLine => len /= 2,
            Op::PushBack | Op::PushFront | Op::TryPushBack | Op::TryPushFront => len = (len + 1).min(n),
            Op::PopBack | Op::PopFront => len = len.saturating_sub(1),
            Op::Remove | Op::SwapRemoveBack | Op::SwapRemoveFront => {
                st.a = io_idx(&mut rng, len, n);
                if st.a < len {
                    len -= 1;
                }
            }
            Op::Swap => {
                st.a = io_idx(&mut rng, len, n);
                st.b = io_idx(&mut rng, len, n);
            }
            Op::TruncateBack | Op::TruncateFront => {
                st.a = io_idx(&mut rng, len, n);
                len = len.min(st.a);
            }
            Op::Clear => len = 0,
            Op::Fill => len = n,
            Op::FillWith => {
                st.b = if rng.below(2) == 0 { 0 } else { 1 + rng.below(n as u64 + 1) as usize };
                len = n;
            }
            Op::ExtendFromSlice => {
                st.a = io_len(&mut rng, free, n);
                len = (len + st.a).min(n);
            }
            Op::Drain => {
                st.rs = crate::gen::range_arg(&mut rng, len, n, 10);
                let sel = st.rs.resolve(len).map(|(a, b)| b - a).unwrap_or(0);
                let wl = rng.below(sel as u64 + 3) as usize;
                st.word = (0..wl).map(|_| if rng.below(2) == 0 { b'n' } else { b'b' }).collect();
                if prop == "C10io" || rng.below(6) == 0 {
                    st.c = 1; // leak the drain
                }
                len -= sel;
            }
            _ => {}
        }
        steps.push(st);
    }
    Script {
        scenario: Scenario::Io,
        n,
        origin: format!("seed={} prop={} run={} layout=({},{},{}) focus={}", seed, prop, run, n, r, s, focus.name()),
        garbage: Garbage::None,
        garbage_seed: rng.next_u64(),
        boxed: rng.below(2) == 0,
        transport: 0,
        steps,
    }
}
