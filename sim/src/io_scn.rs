//! io scenario (placeholder until implemented)
use crate::exec::Outcome;
use crate::script::Script;
pub fn run(_s: &Script, _k: bool) -> Outcome { crate::harness_fail("io scenario not built".into()) }
pub fn run_transports(_s: &Script, _k: bool) -> Outcome { crate::harness_fail("io scenario not built".into()) }
pub fn gen_io(_seed: u64, _prop: &str, _run: u64) -> Script { unimplemented!() }
