//! Minimal JSON writer (no dependencies).

pub enum Val {
    Num(f64),
    Str(String),
    Bool(bool),
    Obj(Obj),
    Arr(Vec<Val>),
}

pub struct Obj(Vec<(String, Val)>);

fn esc(s: &str, out: &mut String) {
    out.push('"');
    for c in s.chars() {
        match c {
            '"' => out.push_str("\\\""),
            '\\' => out.push_str("\\\\"),
            '\n' => out.push_str("\\n"),
            '\r' => out.push_str("\\r"),
            '\t' => out.push_str("\\t"),
            c if (c as u32) < 0x20 => out.push_str(&format!("\\u{:04x}", c as u32)),
            c => out.push(c),
        }
    }
    out.push('"');
}

impl Val {
    fn write(&self, out: &mut String) {
        match self {
            Val::Num(n) => {
                if n.fract() == 0.0 && n.abs() < 9.0e15 {
                    out.push_str(&format!("{}", *n as i64));
                } else {
                    out.push_str(&format!("{n}"));
                }
            }
            Val::Str(s) => esc(s, out),
            Val::Bool(b) => out.push_str(if *b { "true" } else { "false" }),
            Val::Obj(o) => o.write(out),
            Val::Arr(a) => {
                out.push('[');
                for (i, v) in a.iter().enumerate() {
                    if i > 0 {
                        out.push(',');
                    }
                    v.write(out);
                }
                out.push(']');
            }
        }
    }
}

impl Obj {
    pub fn new() -> Obj {
        Obj(Vec::new())
    }
    pub fn num(&mut self, k: &str, v: f64) {
        self.0.push((k.to_string(), Val::Num(v)));
    }
    pub fn str(&mut self, k: &str, v: &str) {
        self.0.push((k.to_string(), Val::Str(v.to_string())));
    }
    #[allow(dead_code)]
    pub fn bool(&mut self, k: &str, v: bool) {
        self.0.push((k.to_string(), Val::Bool(v)));
    }
    pub fn obj(&mut self, k: &str, v: Obj) {
        self.0.push((k.to_string(), Val::Obj(v)));
    }
    pub fn arr(&mut self, k: &str, v: Vec<Val>) {
        self.0.push((k.to_string(), Val::Arr(v)));
    }
    fn write(&self, out: &mut String) {
        out.push('{');
        for (i, (k, v)) in self.0.iter().enumerate() {
            if i > 0 {
                out.push(',');
            }
            esc(k, out);
            out.push(':');
            v.write(out);
        }
        out.push('}');
    }
    #[allow(clippy::inherent_to_string)]
    pub fn to_string(&self) -> String {
        let mut s = String::new();
        self.write(&mut s);
        s
    }
}
