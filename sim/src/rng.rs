//! Deterministic PRNG: xoshiro256** seeded through splitmix64. No external crates, no global
//! state, no clock. Every choice of a run is drawn from one `Rng` built from
//! `(VERIF_SEED, scenario, profile, run index)`.

#[inline]
pub fn splitmix64(state: &mut u64) -> u64 {
    *state = state.wrapping_add(0x9E37_79B9_7F4A_7C15);
    let mut z = *state;
    z = (z ^ (z >> 30)).wrapping_mul(0xBF58_476D_1CE4_E5B9);
    z = (z ^ (z >> 27)).wrapping_mul(0x94D0_49BB_1331_11EB);
    z ^ (z >> 31)
}

/// Mixes several integers into one stream id (order-sensitive).
pub fn mix(parts: &[u64]) -> u64 {
    let mut s = 0x243F_6A88_85A3_08D3u64;
    for p in parts {
        s ^= *p;
        let _ = splitmix64(&mut s);
        s = s.rotate_left(23) ^ p.wrapping_mul(0x9E37_79B9_7F4A_7C15);
    }
    let mut t = s;
    splitmix64(&mut t)
}

#[derive(Clone)]
pub struct Rng {
    s: [u64; 4],
}

impl Rng {
    pub fn new(seed: u64) -> Self {
        let mut st = seed;
        let s = [
            splitmix64(&mut st),
            splitmix64(&mut st),
            splitmix64(&mut st),
            splitmix64(&mut st),
        ];
        Rng { s }
    }

    #[inline]
    pub fn next_u64(&mut self) -> u64 {
        let result = self.s[1].wrapping_mul(5).rotate_left(7).wrapping_mul(9);
        let t = self.s[1] << 17;
        self.s[2] ^= self.s[0];
        self.s[3] ^= self.s[1];
        self.s[1] ^= self.s[2];
        self.s[0] ^= self.s[3];
        self.s[2] ^= t;
        self.s[3] = self.s[3].rotate_left(45);
        result
    }

    /// Uniform in `0..n` (n > 0). Slight modulo bias is irrelevant here.
    #[inline]
    pub fn below(&mut self, n: u64) -> u64 {
        debug_assert!(n > 0);
        self.next_u64() % n
    }

    #[inline]
    pub fn range(&mut self, lo: u64, hi_incl: u64) -> u64 {
        lo + self.below(hi_incl - lo + 1)
    }

    #[inline]
    pub fn chance(&mut self, num: u64, den: u64) -> bool {
        self.below(den) < num
    }

    pub fn pick<'a, T>(&mut self, xs: &'a [T]) -> &'a T {
        &xs[self.below(xs.len() as u64) as usize]
    }

    /// Picks an index according to integer weights.
    pub fn weighted(&mut self, ws: &[u32]) -> usize {
        let total: u64 = ws.iter().map(|w| *w as u64).sum();
        let mut x = self.below(total.max(1));
        for (i, w) in ws.iter().enumerate() {
            if x < *w as u64 {
                return i;
            }
            x -= *w as u64;
        }
        ws.len() - 1
    }
}

/// FNV-1a 64 over bytes; used for trace digests and the recording `Hasher`.
#[derive(Clone, Copy)]
pub struct Fnv(pub u64);

impl Fnv {
    pub const fn new() -> Self {
        Fnv(0xcbf2_9ce4_8422_2325)
    }
    #[inline]
    pub fn write(&mut self, bytes: &[u8]) {
        let mut h = self.0;
        for b in bytes {
            h ^= *b as u64;
            h = h.wrapping_mul(0x0000_0100_0000_01B3);
        }
        self.0 = h;
    }
    #[inline]
    pub fn write_u64(&mut self, x: u64) {
        self.write(&x.to_le_bytes());
    }
}
