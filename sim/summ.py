import json,sys
d=json.load(open(sys.argv[1]))
print({k:d[k] for k in ['prop','runs','steps','run_wall_s','wall_s','failures_total','violations_listed','foreign_listed','harness_errors','distinct_cells','forgets','poisons','doc_panics']})
print('fired',d['fault_fired'],'configured',d['fault_configured'])
print('probes0',[k for k,v in d['probes'].items() if v==0])
for v in d['violations']:
    print('VIOL run',v['run'],v['op'],v['classes'],'|',v['msg'][:300]); print('   min:',v.get('min_classes'),v.get('min_msg','')[:300]);
    print('   '+'\n   '.join(l for l in v['min_script'].splitlines() if l.startswith(('step','n ','garbage'))))
for v in d['foreign'][:5]: print('FOREIGN',v['run'],v['op'],v['classes'],v['msg'][:200])
for v in d['harness'][:5]: print('HARNESS',v)
