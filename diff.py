"""Differential (C18) and Miri (C04 thorough) batch kinds of ./check."""
import os
import re
import subprocess
import time


def _digests(chk, cfg, prof, mode, runs, seed, tag):
    out = os.path.join(chk.TARGET, "out", f"dg-{prof}-{cfg}-{seed}-{tag}-{os.getpid()}.txt")
    res = chk.run_batch(cfg, prof, mode, runs, seed, extra=["--digests", out])
    if "json" not in res:
        return res, None
    with open(out) as f:
        lines = f.read().splitlines()
    os.unlink(out)
    return res, lines


def _replay_digest(chk, cfg, path, mode="plain", trace=False):
    binp = chk.build(cfg)
    cmd = [binp, "replay", "--mode", mode, path]
    if trace:
        cmd.append("--trace")
    p = subprocess.run(cmd, cwd=chk.SIM, env=chk.env_base(), stdout=subprocess.PIPE, stderr=subprocess.STDOUT, text=True)
    m = re.search(r"^digest ([0-9a-f]+)$", p.stdout, re.M)
    return (m.group(1) if m else None), p.stdout, p.returncode


def differs(chk, a, b, text, tmp):
    open(tmp, "w").write(text)
    da, _, rca = _replay_digest(chk, a, tmp)
    db, _, rcb = _replay_digest(chk, b, tmp)
    return da != db or rca != rcb


def differential(chk, pid, b, seed):
    """Runs the same seeds on cfgs[0] (reference) and cfgs[1] (variant); digests must agree."""
    ref, var = b["cfgs"]
    runs = b["runs"]
    viol = []
    summ = {"kind": "differential", "reference": ref, "variant": var, "runs": 0, "profiles": [], "steps": 0, "distinct_cells": 0, "run_wall_s": 0.0, "control_mismatch": []}
    samples = []
    jlast = None
    os.makedirs(os.path.join(chk.TARGET, "out"), exist_ok=True)
    for prof in b["profs"]:
        r1, d1 = _digests(chk, ref, prof, "plain", runs, seed, "a")
        r2, d2 = _digests(chk, var, prof, "plain", runs, seed, "b")
        if d1 is None or d2 is None:
            dead = r1 if d1 is None else r2
            path = chk.crash_replay(pid, seed, dead)
            if path:
                viol.append(({"run": -1, "op": "?", "classes": "CRASH", "msg": f"simulator process died on build {dead['cfg']}"}, path))
                continue
            chk.die(f"differential batch died: rc={dead['rc']} {dead['stderr'][-500:]}")
        for r in (r1, r2):
            if r["json"]["harness_errors"]:
                chk.die("harness inconsistency in differential batch: " + str(r["json"]["harness"]))
        j1, j2 = r1["json"], r2["json"]
        jlast = j2
        summ["runs"] += 2 * runs
        summ["steps"] += j1["steps"] + j2["steps"]
        summ["distinct_cells"] += j2["distinct_cells"]
        summ["run_wall_s"] += j1["run_wall_s"] + j2["run_wall_s"]
        nd = 0
        first = None
        for la, lb in zip(d1, d2):
            if la != lb:
                nd += 1
                if first is None:
                    first = int(la.split()[0])
        summ["profiles"].append({"profile": prof, "runs_per_build": runs, "digest_mismatches": nd,
                                 "failures_reference": j1["failures_total"], "failures_variant": j2["failures_total"]})
        if len(samples) < 3:
            samples += j2["samples"][:1]
        if b.get("control"):
            r0, d0 = _digests(chk, b["control"], prof, "plain", min(runs, 50_000), seed, "c")
            if d0 is not None and d0 != d1[:len(d0)]:
                summ["control_mismatch"].append(prof)
                print(f"# note: {b['control']} and {ref} digests differ for profile {prof}: toolchain effect, not a C18 verdict")
        if first is not None:
            # build the replay: script of the first differing run, shrunk by subprocess ddmin
            binp = chk.build(var)
            g = subprocess.run([binp, "gen", "--prop", prof, "--seed", str(seed), "--run", str(first)], cwd=chk.SIM, env=chk.env_base(), stdout=subprocess.PIPE, text=True)
            text = g.stdout
            os.makedirs(chk.REPLAYS, exist_ok=True)
            path = os.path.join(chk.REPLAYS, f"{pid}-{seed}-{first}-diff.replay")
            tmp = path + ".tmp"
            head = [l for l in text.splitlines() if not l.startswith("step ")]
            steps = [l for l in text.splitlines() if l.startswith("step ")]
            if differs(chk, ref, var, text, tmp):
                budget = 120
                chunk = max(len(steps) // 2, 1)
                while budget > 0:
                    i, progressed = 0, False
                    while i < len(steps) and budget > 0:
                        cand = steps[:i] + steps[i + chunk:]
                        budget -= 1
                        if differs(chk, ref, var, "\n".join(head + cand) + "\n", tmp):
                            steps, progressed = cand, True
                        else:
                            i += chunk
                    if chunk == 1:
                        if not progressed:
                            break
                    else:
                        chunk //= 2
            final = "\n".join(head + steps) + "\n"
            open(tmp, "w").write(final)
            _, ta, _ = _replay_digest(chk, ref, tmp, trace=True)
            _, tb, _ = _replay_digest(chk, var, tmp, trace=True)
            os.unlink(tmp)
            firstdiff = ""
            for la, lb in zip(ta.splitlines(), tb.splitlines()):
                if la != lb:
                    firstdiff = f"{ref}: {la} || {var}: {lb}"
                    break
            with open(path, "w") as f:
                f.write(final)
                f.write(f"property {pid}\nbuild {var} mode=plain\ndifferential {ref} {var}\n")
                f.write(f"expect DIFF trace digests differ between builds {ref} and {var}\n")
                f.write("violation first diverging event: " + firstdiff.replace("\n", " ") + "\n")
                f.write(f"note found by seed={seed} run={first} profile={prof}; {nd} of {runs} runs differ\n")
            viol.append(({"run": first, "op": "differential", "classes": "DIFF", "min_classes": "DIFF", "min_op": "differential", "min_n": "?",
                          "msg": f"{nd} of {runs} runs of profile {prof} behave differently on {var} than on {ref}; first diverging event: {firstdiff[:300]}"}, path))
    return {"summary": summ, "violations": viol, "builds": [ref, var], "samples": samples, "json": jlast}


def miri(chk, pid, b, seed):
    """Runs a small batch of the profile under Miri (nightly), 1 job per process, several
    processes. Only 'uninitialized' diagnostics are C04 verdicts; other diagnostics are notes."""
    t0 = time.time()
    runs_per = b["runs_per_proc"]
    procs = b["procs"]
    tdir = os.path.join(chk.TARGET, "miri")
    e = chk.env_base()
    e["CARGO_TARGET_DIR"] = tdir
    e["MIRIFLAGS"] = "-Zmiri-disable-isolation"
    base = ["cargo", "+nightly", "miri", "run", "--offline", "--no-default-features", "--features", "std", "--"]
    ps = []
    os.makedirs(os.path.join(chk.TARGET, "out"), exist_ok=True)
    # build once (first process compiles; the others would contend on the lock), so start one
    outs = []
    for k in range(procs):
        out = os.path.join(chk.TARGET, "out", f"miri-{pid}-{k}-{os.getpid()}.json")
        outs.append(out)
        cmd = base + ["batch", "--prop", b["prof"], "--seed", str(seed), "--start", str(k * runs_per), "--runs", str(runs_per), "--jobs", "1", "--out", out, "--min-budget", "0"]
        p = subprocess.Popen(cmd, cwd=chk.SIM, env=e, stdout=subprocess.PIPE, stderr=subprocess.PIPE, text=True)
        ps.append((p, cmd))
        if k == 0:
            # let the first one finish compiling before the rest start
            time.sleep(b.get("stagger_s", 45))
    viol = []
    notes = []
    total = 0
    for k, (p, cmd) in enumerate(ps):
        so, se = p.communicate()
        if "Undefined Behavior" in se or "error: unsupported operation" in se:
            m = re.search(r"error: (Undefined Behavior|unsupported operation): (.*)", se)
            msg = m.group(0) if m else se[-400:]
            if "uninitialized" in se or "uninit" in msg:
                path = os.path.join(chk.REPLAYS, f"{pid}-{seed}-miri-{k}.log")
                os.makedirs(chk.REPLAYS, exist_ok=True)
                open(path, "w").write("command: " + " ".join(cmd) + "\n" + se[-8000:])
                viol.append(({"run": -1, "op": "miri", "classes": "GARBAGE", "min_classes": "GARBAGE", "min_op": "miri", "min_n": "?", "msg": "Miri: " + msg[:300]}, path))
            else:
                notes.append(msg[:300])
        elif p.returncode not in (0, 1):
            notes.append(f"miri process {k} rc={p.returncode}: {se[-300:]}")
        else:
            total += runs_per
        if os.path.exists(outs[k]):
            os.unlink(outs[k])
    for n in notes:
        print("# miri note (not a C04 verdict):", n)
    summ = {"kind": "miri", "profile": b["prof"], "processes": procs, "runs": total, "wall_s": round(time.time() - t0, 1), "notes": notes}
    return {"summary": summ, "violations": viol}
